"""C08 No descriptor leaks or crashes across abort histories (descriptor-table model + in-process fd.cc + end-to-end monitor)."""
import os, re, subprocess
from concurrent.futures import ThreadPoolExecutor
from vf.util import VERIF, log
from vf.harness import ProcHarness
from e2e import rig
from harness import c08_e2e
from harness.faststage import FastStage

ID = "C08"
PROP_MODULE = "SquidModel.Properties.C08"
MODEL = "c08"
GEN = []
RULE = ("t <maxFD> ops: histories of fd_open/fd_close (and fdUsageHigh queries) on the real fd.cc with a table of exactly maxFD entries: random "
        "open/close mixes biased to the top of the table and to Biggest_FD, re-opening of open slots, full tables, all histories of length <= 4 over "
        "3 slots (thorough: <= 5 over 4 slots); a few deliberate misuses (double close, descriptor outside the table) that must assert. "
        "e <cache> txns: 3..12 concurrent transactions per scenario drawn from complete (GET, POST, persistent client, cache hit), client abort "
        "mid-request / mid-response (close and reset) at random byte offsets, client stall, origin close / reset / stall at random byte offsets, with "
        "caching on and off, against 4 rebuilt squids with 2-second timeouts; descriptors by /proc/<pid>/fd and by mgr:filedescriptors before the "
        "scenario and after all timeouts expired. non-trivial = a table history with at least one close or re-open / every end-to-end scenario; "
        "distinct = distinct case lines")
TRUSTED = ["the ownership skeleton (Fd/Book.lean: one owner per descriptor, every terminal transition closes or pools) is an abstraction of FwdState / "
           "client_side / http.cc written by hand; that the binary follows it is checked by the end-to-end monitor only",
           "IdleConnList is modelled (Fd/Pconn.lean) and proved about, but tied to the code only through the end-to-end runs (no in-process harness: it needs Comm)",
           "python rig: raw clients, scriptable origin, /proc/<pid>/fd, mgr:filedescriptors parser"]
ASSUMPTIONS = ["the kernel never hands out a descriptor number that is still open (guard of the openNew event)",
               "end to end: forward proxy on loopback, read/request/idle timeouts set to 2 seconds, default quick_abort, no cache_dir, no ICAP/TLS/FTP",
               "baseline = descriptors open after a warm-up transaction, an error page and one manager report (lazily opened descriptors belong to it)"]
MANIFEST = {
    "engine": "in-proc + e2e",
    "text": "partial: proved for all histories: Number_FD equals the number of open slots and Biggest_FD the largest open slot after any fd_open/fd_close "
            "history, the assertions inside fdUpdateBiggest are unreachable (number_fd_eq_open_count, biggest_fd_is_max_open, fd_asserts_only_on_misuse); "
            "IdleConnList::closeN closes min(n,size) and loses nothing, capacity covers size; in the ownership skeleton any interleaving of accepts, connects, "
            "completions, client/server aborts, resets, timeouts, pool pushes/pops keeps Number_FD = baseline + live transactions' descriptors + idle pool, "
            "without assertion and without a descriptor having two owners (number_fd_accounts_for_every_owner), so a quiescent process is at baseline + idle "
            "pool (quiescent_is_baseline_plus_idle) and at the baseline once the timeouts expired (expired_returns_to_baseline). That the real binary's "
            "code paths follow the skeleton is NOT proved: random abort mixes run against the rebuilt squid, and /proc/<pid>/fd, mgr:filedescriptors, "
            "liveness and cache.log must show the baseline again.",
    "note": "trusted: Lean kernel, python rig and monitors. Not modelled: the code paths that open descriptors (comm, FwdState, client_side, http, helpers, "
            "disk I/O), half-closed connections, SMP, TLS",
    "technique": "Lean 4 proofs (table invariant, list lemmas, ownership invariant) + ASan/UBSan differential run of fd.cc + end-to-end abort mixes with a "
                 "descriptor monitor",
}
MINIMISE_BUDGET = 12
MAX_REPORT = 4


def build_exe(stage):
    built = getattr(stage, "built", None)
    if built is None:
        built = stage.built = {}
    if "c08" not in built:
        objs = [stage.compile(os.path.join(VERIF, "harness", "c08.cc"), extra=["-fno-sanitize=vptr"])] + stage.compile_many(["src/fd.cc", "src/fde.cc"])
        weak = os.path.join(stage.work, "stub_libcomm_weak.o")
        subprocess.run(["objcopy", "--weaken", os.path.join(stage.repo, "src/tests/stub_libcomm.o"), weak], check=True)
        built["c08"] = stage.link_like("tests/testHttpReply", objs + [weak], os.path.join(stage.work, "c08"),
                                       drop=("tests/stub_fd.o", "tests/stub_fde.o", "tests/stub_libcomm.o"))
    return built["c08"]


class Harness:
    def __init__(self, stage):
        self.t = ProcHarness([build_exe(FastStage(stage))])
        self.rig = c08_e2e.Rig(stage)          # squids are started here, from the main thread
        self.crashes = 0

    def run(self, lines):
        out = [None] * len(lines)
        ti = [i for i, l in enumerate(lines) if l.startswith("t ")]
        ei = [i for i, l in enumerate(lines) if l.startswith("e ")]
        known = set(ti) | set(ei)
        for i in range(len(lines)):
            if i not in known:
                out[i] = "bad-op"
        if ti:
            for i, r in zip(ti, self.t.run([lines[i] for i in ti])):
                out[i] = r
        if ei:
            fn = rig.guarded(self.rig.scenario, self.rig.squids())
            with ThreadPoolExecutor(max_workers=len(self.rig.inst)) as ex:
                for i, r in zip(ei, ex.map(fn, [lines[i] for i in ei])):
                    out[i] = r
            # flake guard: an unexpected count is re-measured by running the scenario again (a real leak repeats)
            for i in ei:
                if oracle(lines[i], out[i]) and not out[i].startswith("abort"):
                    again = [fn(lines[i]) for _ in range(2)]
                    if not all(oracle(lines[i], a) for a in again):
                        out[i] = next(a for a in again if not oracle(lines[i], a))
        return out

    def close(self):
        self.rig.close()


def build(stage):
    return Harness(stage)


# ------------------------------------------------------------------------------------------------ generators
def t_cases(rng, tier):
    thorough = tier == "thorough"
    # exhaustive small scope: all histories over 3 (4) slots
    slots = 4 if thorough else 3
    depth = 5 if thorough else 4
    ops = ["o%d" % i for i in range(slots)] + ["c%d" % i for i in range(slots)]

    def rec(prefix, opened, d):
        yield prefix
        if d == 0:
            return
        for o in ops:
            fd = int(o[1:])
            if o[0] == "c" and fd not in opened:
                continue        # misuse is generated separately
            no = (opened | {fd}) if o[0] == "o" else (opened - {fd})
            yield from rec(prefix + [o], no, d - 1)
    for h in rec([], frozenset(), depth):
        if h:
            yield "t %d %s" % (slots, " ".join(h))
    # random histories
    for _ in range(6000 if thorough else 600):
        m = rng.choice([1, 2, 5, 8, 16, 64, 256, 1024])
        opened = set()
        h = []
        for _ in range(rng.range(1, 60)):
            k = rng.below(10)
            if k < 5 or not opened:
                fd = rng.choice([rng.below(m), m - 1 - rng.below(min(m, 3)), max(opened) if opened else 0, min(m - 1, (max(opened) + 1) if opened else 0)])
                h.append("o%d" % fd); opened.add(fd)
            elif k < 9:
                fd = rng.choice([max(opened), min(opened), rng.choice(sorted(opened))])
                h.append("c%d" % fd); opened.discard(fd)
            else:
                h.append("h%d:%d" % (rng.below(4), rng.choice([0, 1, 2, 5, 20, 100])))
        yield "t %d %s" % (m, " ".join(h))
    # deliberate misuse: must assert
    for l in ("t 8 o3 c3 c3", "t 8 c0", "t 4 o4", "t 4 o0 o1 c2", "t 16 o15 c15 o15 c15 c15"):
        yield l


KINDS = ["ok", "ok", "okka", "post", "hit", "cabq", "cabq", "cstall", "cabr", "cabr", "crst", "sclose", "sclose", "srst", "srst", "sstall"]


def e_cases(rng, tier):
    n = 60 if tier == "thorough" else 12
    for i in range(n):
        txns = []
        for _ in range(rng.range(3, 12)):
            k = rng.choice(KINDS)
            if k in ("ok", "okka", "post", "hit"):
                txns.append(k)
            elif k in ("cabq", "cstall"):
                txns.append("%s:%d" % (k, rng.choice([1, 3, rng.range(1, 60), rng.range(60, 400), rng.range(400, 900)])))
            elif k in ("cabr", "crst"):
                txns.append("%s:%d" % (k, rng.choice([1, rng.range(1, 300), rng.range(300, 5000), rng.range(5000, 20000)])))
            else:
                txns.append("%s:%d" % (k, rng.choice([0, 0, 1, rng.range(1, 17), rng.range(17, 200), rng.range(200, 600), rng.range(600, 20000)])))
        if sum(1 for t in txns if t.startswith(("cstall", "sstall"))) > 3:
            txns = [t for t in txns if not t.startswith(("cstall", "sstall"))][:9] + ["sstall:0"]
        yield "e %d %s" % (i % 2, " ".join(txns))


def cases(rng, tier):
    for l in e_cases(rng.fork("e"), tier):
        yield l
    for l in t_cases(rng.fork("t"), tier):
        yield l


# ------------------------------------------------------------------------------------------------ oracle
def ref_t(p):
    """python reading of a table history: (expected output, misuse?)"""
    m = int(p[1])
    opened = set()
    extra = ""
    for o in p[2:]:
        if o[0] == "h":
            a, b = o[1:].split(":")
            nfree = m - len(opened) - int(a)
            extra += " high=%d" % (1 if (nfree < 2 * int(b) or nfree < len(opened) // 4) else 0)
            continue
        fd = int(o[1:])
        if fd >= m:
            return None, True
        if o[0] == "o":
            opened.add(fd)
        else:
            if fd not in opened:
                return None, True
            opened.discard(fd)
    return "ok n=%d b=%d open=%s" % (len(opened), max(opened) if opened else -1, ",".join(map(str, sorted(opened))) or "-") + extra, False


def fields(impl):
    return {k: v for k, v in re.findall(r"(\w+)=(-?\d+)", impl or "")}


def oracle(line, impl):
    impl = impl or ""
    p = line.split(" ")
    if p[0] == "t":
        try:
            want, misuse = ref_t(p)
        except (ValueError, IndexError):
            return None
        if misuse:
            return None if impl.startswith("abort:") and ("assertion" in impl or "Sanitizer" in impl) else "a descriptor-table misuse went unnoticed: " + impl[:80]
        if impl.startswith("abort"):
            return "assertion or memory error in the descriptor table: " + impl[:160]
        return None if impl == want else "descriptor table accounting: got %s, expected %s" % (impl, want)
    if p[0] == "e":
        if impl.startswith("abort"):
            return "squid did not keep running: " + impl[:200]
        if impl == "bad-op":
            return None
        f = fields(impl)
        if "delta" not in f or "mgr" not in f:
            return "no usable observation: " + impl[:80]
        if int(f["delta"]) != 0:
            return "open descriptors did not return to the baseline: %+d (by /proc/<pid>/fd)" % int(f["delta"])
        if int(f["mgr"]) != 0:
            return "the descriptor table did not return to the baseline: %+d (by mgr:filedescriptors)" % int(f["mgr"])
    return None


def compare(line, impl, model):
    impl, model = impl or "", model or ""
    if line.startswith("t "):
        if model.startswith("assert:"):
            return impl.startswith("abort:")
        return impl == model
    if line.startswith("e "):
        if impl.startswith("abort") or model == "bad-op":
            return impl == model
        fi, fm = fields(impl), fields(model)
        return fi.get("delta") == fm.get("delta") and fi.get("mgr") == fm.get("mgr")
    return impl == model


def classify(line, impl, why):
    return None


def nontrivial(line, impl, model):
    p = line.split(" ")
    if p[0] == "t":
        seen = set()
        for o in p[2:]:
            if o[0] == "c" or (o[0] == "o" and o in seen):
                return True
            seen.add(o)
        return False
    return p[0] == "e" and (impl or "") != "bad-op"


def tag(line, impl, model):
    p = line.split(" ")
    impl = impl or ""
    if p[0] == "t":
        return "t maxFD=%s %s" % (p[1], "assert" if impl.startswith("abort") else "ok")
    if p[0] == "e":
        kinds = sorted({t.split(":")[0] for t in p[2:]})
        ab = [k for k in kinds if k not in ("ok", "okka", "post", "hit")]
        return "e cache=%s aborts=%d/%d -> %s" % (p[1], sum(1 for t in p[2:] if t.split(":")[0] in ab), len(p) - 2, " ".join(impl.split(" ")[:2]))
    return "other"


def shrink(line):
    p = line.split(" ")
    for i in range(2, len(p)):
        if len(p) > 3:
            yield " ".join(p[:i] + p[i + 1:])


def exhaustive(tier):
    return True
