"""C18 Collapsed forwarding: one upstream fetch, identical copies (end to end, one worker; several workers: see C19's rig)."""
import re, importlib
from vf.harness import ModelRunner

H = importlib.import_module("harness.c18")

ID = "C18"
PROP_MODULE = "SquidModel.Properties.C18"
MODEL = "c18"
GEN = ["collapse_flags"]
MINIMISE_BUDGET = 30
MAX_REPORT = 4
RULE = ("scenario = collapsed_forwarding on/off x origin response (cacheable 200 / shareable-only 404 / Cache-Control: private; Content-Length, "
        "chunked or EOF-delimited; 0 B .. 300 KB; first fetch complete, cut off after a third of the body, or closed before any reply byte) x "
        "a leader (that may close its connection in windows 0..2) x 1..19 followers, each started in one of four windows relative to the paced "
        "first fetch (before the reply header, after the header, after the first third of the body, after its end), plain, no-cache, or closing "
        "early; the origin counts and numbers its fetches, every client body is compared byte for byte with the fetch its X-Fetch header names; "
        "non-trivial = at least one follower arrives while the first fetch is in progress; distinct = distinct scenario lines")
TRUSTED = ["modelled, not verified: Comm I/O, HTTP parsing, the mapping of StoreEntry flags / lock_count / store_client list onto the model's "
           "fields, FwdState retries, the memory cache's replacement policy (an `evict` action of the model), the rig's origin and client stubs"]
ASSUMPTIONS = ["-N mode (one worker): SMP collapsing through Transients and CollapsedForwarding queues is exercised by C19's rig",
               "memory cache only, quick_abort_min -1, server_persistent_connections off (an idle server connection closed by the origin makes "
               "FwdState retry: one fetch, two origin requests - that is the retry property C07)",
               "one Date for all fetches of a scenario (a reply older than the cached one is not reusable: `sawDateGoBack`); responses fresh when hit",
               "the order in which squid serves clients started in the same window is not observable: tokens are sorted per window"]
MANIFEST = {
    "engine": "e2e",
    "text": "partial: for the model of one cache key's Store entries and client transactions (lookup with checkFoundCandidate, identifyFoundObject, "
            "processMiss/allowCollapsing/forcePublicKey, the ReuseDecision switch of haveParsedReplyHeaders, httpMaybeRemovePublic, release/"
            "releaseRequest/setPrivateKey, complete/completeTruncated/abort/error page, cacheHit, replyStatus; any interleaving of requests, origin "
            "events, store-client callbacks, disconnects, eviction and purges; any number of clients) theorems one_fetch_when_cacheable, "
            "served_bytes_from_one_fetch, complete_means_whole_response_or_error_page, identical_copies hold, and "
            "unshareable_never_served_to_collapsed_partial with its counterexample (a Cache-Control: private reply reaches collapsed clients "
            "when the entry was released before the reply header came: known finding with a candidate fix); the model is tied to the rebuilt binary by scenario correspondence (fetch count and per-client outcome must equal the model's) "
            "and a direct byte-for-byte oracle",
    "note": "trusted: Lean kernel, python rig (origin/client stubs), loopback TCP; not modelled: event-loop timing (the rig sequences it with "
            "hand-shakes and barrier requests), Vary, HEAD/range/conditional requests, collapsed revalidation, SMP (C19)",
    "technique": "Lean 4 proof (invariants over all interleavings of the collapsing state machine) + end-to-end scenario correspondence with "
                 "two rebuilt squid instances (collapsed_forwarding on / off)",
}


def build(stage):
    return GuardedHarness(stage)


class GuardedHarness(H.Harness):
    """flake guard: a scenario whose observation fails the oracle or differs from the model's prediction is re-run (up to twice, alone);
    only an observation that repeats is reported"""

    def run(self, lines):
        outs = super().run(lines)
        try:
            model = ModelRunner(MODEL).run(lines)
        except Exception:
            model = [None] * len(lines)
        for attempt in range(2):
            bad = [i for i, (l, o, m) in enumerate(zip(lines, outs, model))
                   if o != "bad-op" and ((oracle(l, o) and not classify(l, o, oracle(l, o))) or (m is not None and not compare(l, o, m)))]
            if not bad or len(bad) > 25:
                break
            for i in bad:
                o = H.Harness.run(self, [lines[i]])[0]
                if not oracle(lines[i], o) and (model[i] is None or compare(lines[i], o, model[i])):
                    outs[i] = o
        return outs


# ------------------------------------------------------------------------------------------------ generators
SIZES = [0, 1, 2, 3, 4, 10, 100, 1000, 3000, 4095, 4096, 4097, 5000, 16384, 32768, 40000, 65536, 65537, 100000, 300000]


def resp(rng, tier):
    T = rng.choice("PPPPPPSSNN")
    F = rng.choice("lllcce")
    n = rng.choice(SIZES) if rng.chance(3, 4) else rng.below(120000)
    E = rng.choice(["ok"] * 6 + ["cut"] * 3 + ["err"])
    if E == "cut" and (F == "e" or n < 3):
        E = "ok"
    return T, F, n, E


def followers(rng, k):
    out = []
    for _ in range(k):
        w = rng.choice([0, 0, 0, 0, 1, 1, 2, 2, 3])
        kind = rng.choice("ggggggggnd")
        out.append("%d%s" % (w, kind))
    return out


def fmt(cf, r, leader, fol):
    return "%s %s.%s.%d.%s L%s %s" % (cf, r[0], r[1], r[2], r[3], "-" if leader is None else leader, ",".join(fol) if fol else ".")


def random_case(rng, tier):
    r = resp(rng, tier)
    leader = None if rng.chance(4, 5) else rng.below(3)
    if r[3] == "err" and leader:
        leader = 0
    k = rng.range(1, 19) if rng.chance(2, 3) else rng.range(1, 5)
    return fmt("on" if rng.chance(4, 5) else "off", r, leader, followers(rng, k))


def burst_case(rng, tier):
    """the shape the property is about: a burst of plain requests for a cacheable URL while the fetch is in progress"""
    F = rng.choice("lce")
    n = rng.choice(SIZES)
    k = rng.range(1, 19)
    fol = ["%dg" % rng.choice([0, 0, 0, 1, 2]) for _ in range(k)]
    if rng.chance(1, 4):
        fol.append("3g")
    return fmt("on", ("P", F, n, "ok"), None if rng.chance(3, 4) else 1 + rng.below(2), fol[:19])


def boundary_cases():
    for F in "lce":
        for n in (0, 1, 3):
            yield fmt("on", ("P", F, n, "ok"), None, ["0g", "1g", "2g", "3g"])
        yield fmt("on", ("P", F, 5000, "ok"), None, ["0g"] * 19)
        yield fmt("on", ("P", F, 5000, "ok"), 0, ["0g", "0g", "1g"])
        yield fmt("on", ("P", F, 5000, "ok"), None, ["1g", "3g"])
        yield fmt("on", ("P", F, 2000, "ok"), None, ["3g", "3g"])
        yield fmt("off", ("P", F, 5000, "ok"), None, ["0g", "0g", "1g", "2g", "3g"])
        yield fmt("on", ("S", F, 700, "ok"), None, ["0g", "0g", "1g", "1g", "2g", "3g"])
        yield fmt("on", ("N", F, 700, "ok"), None, ["0g", "0g", "1g", "1g", "2g", "3g"])
        yield fmt("on", ("P", F, 700, "err"), None, ["0g", "0g", "1g", "3g"])
    for F in "lc":
        yield fmt("on", ("P", F, 3, "cut"), None, ["0g", "1g", "2g", "3g"])
        yield fmt("on", ("P", F, 90000, "cut"), None, ["0g", "0g", "1g", "2g", "2g", "3g", "3g"])
        yield fmt("on", ("S", F, 9000, "cut"), None, ["0g", "1g", "2g", "3g"])
    yield fmt("on", ("P", "l", 5000, "ok"), 0, ["0d", "1g", "2g"])
    yield fmt("on", ("P", "l", 5000, "ok"), None, ["0n", "0g", "1n", "1g", "2n", "2g", "3g"])
    yield fmt("on", ("P", "c", 300000, "ok"), 2, ["0g", "0d", "1g", "1d", "2g", "2d", "3g"])


def exhaustive_cases(tier):
    if tier != "thorough":
        return
    alphabet = ["0g", "1g", "2g", "3g", "0n", "0d"]
    sets = [[]] + [[a] for a in alphabet] + [[a, b] for i, a in enumerate(alphabet) for b in alphabet[i:]]
    for T in "PSN":
        for F in "lce":
            for E in ("ok", "cut", "err"):
                if E == "cut" and F == "e":
                    continue
                for fol in sets:
                    yield fmt("on", (T, F, 3000, E), None, fol)
    for fol in sets:
        yield fmt("off", ("P", "l", 3000, "ok"), None, fol)
        yield fmt("on", ("P", "l", 3000, "ok"), 0, fol)
        yield fmt("on", ("P", "c", 3000, "cut"), 1, fol)


def exhaustive(tier):
    return tier == "thorough"


def mutate(rng, l):
    t = l.split(" ")
    fol = [] if t[3] == "." else t[3].split(",")
    k = rng.below(5)
    if k == 0 and fol:
        i = rng.below(len(fol))
        fol[i] = "%d%s" % (rng.below(4), fol[i][1])
    elif k == 1 and fol:
        i = rng.below(len(fol))
        fol[i] = fol[i][0] + rng.choice("gnd")
    elif k == 2 and len(fol) < 19:
        fol.insert(rng.below(len(fol) + 1), "%d%s" % (rng.below(4), rng.choice("ggnd")))
    elif k == 3:
        t[0] = "off" if t[0] == "on" else "on"
    else:
        r = t[1].split(".")
        r[3] = rng.choice(["ok", "cut", "err"])
        if r[3] == "cut" and (r[1] == "e" or int(r[2]) < 3):
            r[3] = "ok"
        if r[3] == "err" and t[2] not in ("L-", "L0"):
            t[2] = "L-"
        t[1] = ".".join(r)
    return " ".join([t[0], t[1], t[2], ",".join(fol) if fol else "."])


def cases(rng, tier):
    yield from boundary_cases()
    yield from exhaustive_cases(tier)
    n = 300 if tier == "thorough" else 45
    base = []
    for i in range(n):
        l = burst_case(rng, tier) if i % 3 == 0 else random_case(rng, tier)
        base.append(l)
        yield l
    for i in range(n // 3):
        yield mutate(rng, rng.choice(base))
    for junk in ("", "on", "on P.l.5.ok L- 4g", "maybe P.l.5.ok L- .", "on P.e.500.cut L- 0g", "on P.l.-1.ok L- ."):
        yield junk


# ------------------------------------------------------------------------------------------------ oracle
def tokens(impl):
    """-> (fetches, [(group, token)])"""
    t = impl.split(" ")
    m = re.fullmatch(r"fetches=(\d+)", t[0]) if t else None
    if not m:
        return None, []
    out = []
    for g in t[1:]:
        name, _, toks = g.partition(":")
        for tk in toks.split(","):
            out.append((name, tk))
    return int(m.group(1)), out


def oracle(l, impl):
    sc = H.parse_line(l)
    if sc is None:
        return None if impl == "bad-op" else "harness accepted a malformed scenario"
    if impl.startswith("abort") or impl == "bad-op":
        return "no usable observation: " + impl[:200]
    nf, toks = tokens(impl)
    if nf is None or len(toks) != 1 + len(sc["fol"]):
        return "no usable observation: " + impl[:200]
    for g, tk in toks:
        if tk in ("gone", "none"):
            continue
        f = tk.split(":")
        if len(f) != 4:
            return "no usable observation: " + impl[:200]
        st, ci, m, hm = f
        if m == "!":
            return "client in %s received bytes that are not the response of the fetch it names, or a fetch the origin never finished, as complete: %s" % (g, tk)
        if ci == "C" and m == "<":
            return "client in %s: a truncated body presented as complete: %s" % (g, tk)
        if m == "-" and st != "5xx":
            return "client in %s: a response that is neither an origin response nor an error: %s" % (g, tk)
    plain = all(k in "gd" for w, k in sc["fol"])
    kept = sc["leader"] is None or sc["leader"] > 0 or any(w == 0 and k == "g" for w, k in sc["fol"])
    if sc["cf"] == "on" and sc["T"] == "P" and sc["E"] == "ok" and plain and kept and nf > 1:
        return "%d origin fetches for a burst of plain requests for a cacheable URL whose first fetch completed" % nf
    return private_shared(l, impl)


F_PRIVATE = "C18-private-reply-shared-after-release"


def private_shared(l, impl):
    """a reply marked Cache-Control: private served to a client that did not fetch it (not part of C18's statement, but of the
    collapsing logic the model covers: theorem unshareable_never_served_to_collapsed_*)"""
    sc = H.parse_line(l)
    if sc is None or sc["T"] != "N":
        return None
    nf, toks = tokens(impl)
    for g, tk in toks:
        f = tk.split(":")
        if len(f) == 4 and f[0] == "200" and f[3] == "h":
            return "client in %s was served a `Cache-Control: private` reply that another client's request fetched: %s" % (g, tk)
    return None


def compare(l, impl, model):
    return impl == model


def classify(l, impl, why):
    sc = H.parse_line(l)
    # narrow: only the private-reply clause, only when some other request could have released the entry before its reply header came:
    # a no-cache request, or (collapsed_forwarding on) another fetch's reply calling httpMaybeRemovePublic
    if sc and why and "Cache-Control: private" in why and sc["T"] == "N" and any(k == "n" for w, k in sc["fol"]):
        return F_PRIVATE
    return None


def nontrivial(l, impl, model):
    sc = H.parse_line(l)
    return bool(sc) and any(w < 3 for w, k in sc["fol"])


def tag(l, impl, model):
    sc = H.parse_line(l)
    if sc is None:
        return "bad-op"
    nf, toks = tokens(impl or "")
    early = sum(1 for w, k in sc["fol"] if w < 3)
    return "cf=%s %s.%s.%s early=%s fetches=%s" % (sc["cf"], sc["T"], sc["F"], sc["E"], "0" if not early else ("1-4" if early < 5 else "5+"),
                                                   "?" if nf is None else ("1" if nf == 1 else "2-5" if nf <= 5 else "6+"))


def shrink(l):
    t = l.split(" ")
    if len(t) != 4:
        return
    fol = [] if t[3] == "." else t[3].split(",")
    for i in range(len(fol)):
        rest = fol[:i] + fol[i + 1:]
        yield " ".join(t[:3] + [",".join(rest) if rest else "."])
    if t[2] != "L-":
        yield " ".join([t[0], t[1], "L-", t[3]])
    r = t[1].split(".")
    if len(r) == 4 and r[2].isdigit() and int(r[2]) > 9:
        yield " ".join([t[0], ".".join([r[0], r[1], str(int(r[2]) // 10), r[3]]), t[2], t[3]])
    if len(r) == 4 and r[3] != "ok":
        yield " ".join([t[0], ".".join(r[:3] + ["ok"]), t[2], t[3]])
