"""C04 Hop-by-hop and proxy credential headers are not relayed (end to end + in-process)."""
import os, re, threading, time
from concurrent.futures import ThreadPoolExecutor
from vf.util import VERIF, hx, unhx
from vf.harness import ProcHarness
from e2e import rig

ID = "C04"
PROP_MODULE = "SquidModel.Properties.C04"
MODEL = "c04"
GEN = ["charsets", "hop_by_hop"]
RULE = ("E lines: one transaction (and optionally a second one for the same URL) through the rebuilt squid in one of six configurations "
        "(direct, via off, originserver cache_peer with/without login=PASS, parent cache_peer with/without login=PASS): request and "
        "response field sets drawn from extension names, the standard hop-by-hop names, every registered name, and the names with "
        "their own switch case, with 0-3 Connection fields nominating some of them (random case, OWS, empty elements, near-miss "
        "names, VT/FF/quote/parameter mutations), HTTP/1.0 and 1.1, bodies, chunked replies; L/R/K lines: the real strListGetItem / "
        "strListIsMember / removeConnectionHeaderEntries / removeHopByHopEntries under ASan on generated and exhaustively enumerated "
        "lists. non-trivial = at least one field is nominated by a Connection field or carries a standard hop-by-hop name (E, R, K) / "
        "the list has at least one element (L); distinct = distinct lines")
TRUSTED = ["modelled, not verified: the C++ text of copyOneHeaderFromClientsideRequestToUpstreamRequest, httpFixupAuthentication, "
           "httpBuildRequestHeader, buildReplyHeader, removeHopByHopEntries, strListGetItem is transcribed by hand into Lean "
           "(SquidModel/Hop/*.lean); which case label runs which statements is regenerated from the staged source text",
           "python rig (origin and client stubs), loopback TCP",
           "the gperf perfect hash of HeaderLookupTable is modelled as a case-insensitive search of the regenerated registry"]
ASSUMPTIONS = ["no request_header_access / reply_header_access / *_header_add / *_header_replace rules (httpHdrMangleList is the identity), "
               "no adaptation service, no http_upgrade_request_protocols rule",
               "peers configured with login=PASS / PASSTHRU / PROXYPASS relay proxy credentials by design; the theorems state the exact conditions",
               "header values without NUL; C locale"]
MANIFEST = {
    "engine": "e2e",
    "text": "partial: for every received header, any number of Connection fields and every configuration flag the model reads, the theorems "
            "standard_hop_by_hop_not_copied (Connection, Keep-Alive, TE, Trailer, Upgrade, Proxy-Connection, Proxy-Authenticate, "
            "Transfer-Encoding; both directions), transfer_encoding_only_own_chunked, proxy_authorization_not_to_origin, "
            "reply_nominated_not_copied and request_nominated_not_copied_partial (every field named by a well-formed Connection "
            "list — any case, OWS, empty elements, several fields — is dropped; request side only for ids handled by the default: "
            "branch) hold for the model of copyOneHeaderFromClientsideRequestToUpstreamRequest / httpBuildRequestHeader / "
            "removeHopByHopEntries / buildReplyHeader / strListGetItem; counterexamples are proved for Connection-nominated "
            "Authorization, If-Modified-Since, Range …, for an unbalanced double quote and for Proxy-Authenticate in a 1xx message (a VT/FF-only "
            "list element used to end the list scan: repaired in /repo 43aac5c, kept as a regression theorem and corpus case). The model is "
            "tied to the rebuilt binary by scenario correspondence (exact field lists seen by the origin and by the client) and to the "
            "real list scanner and HttpHeader methods in-process under ASan/UBSan; a direct oracle judges every observation",
    "note": "trusted: Lean kernel, hand transcription, translator (switch groups, registry), python rig; not modelled: socket I/O, header "
            "parsing (tied separately), header mangling ACLs, adaptation, 1xx control messages, CONNECT/upgrade tunnels; known findings "
            "C04-own-case-ignores-connection, C04-dquote-swallows-list, C04-1xx-proxy-authenticate-relayed "
            "(C04-list-scan-stops-at-vt-ff fixed by /repo 43aac5c)",
    "technique": "Lean 4 proof (induction over the list scanner and the header loop) + switch/registry translator + e2e scenario "
                 "correspondence + ASan differential run + direct oracle",
}

UNDER_TEST = ["src/HttpHeader.cc", "src/HttpHeaderTools.cc", "src/StrList.cc", "src/String.cc", "src/http/RegisteredHeaders.cc"]


def build_exe(stage):
    built = getattr(stage, "built", None)
    if built is None:
        built = stage.built = {}
    if "c04" in built:
        return built["c04"]
    from concurrent.futures import ThreadPoolExecutor as _TP
    with _TP(max_workers=2) as ex:   # the harness translation unit and the code under test compile side by side
        fh = ex.submit(stage.compile, os.path.join(VERIF, "harness", "c04.cc"), extra=["-fno-sanitize=vptr"])
        fo = ex.submit(stage.compile_many, UNDER_TEST)
        objs = [fh.result()] + fo.result()
    exe = stage.link_like("tests/testHttpReply", objs, os.path.join(stage.work, "c04"),
                          drop=("HttpHeader.o", "HttpHeaderTools.o", "StrList.o", "String.o"))
    built["c04"] = exe
    return exe


# ---------------------------------------------------------------------------------------------- the e2e side
VARIANTS = {
    "d": "",
    "v": "via off\n",
    "o": "cache_peer 127.0.0.1 parent {oport} 0 no-query no-digest originserver name=op\nnever_direct allow all\n",
    "p": "cache_peer 127.0.0.1 parent {oport} 0 no-query no-digest originserver login=PASS name=op\nnever_direct allow all\n",
    "x": "cache_peer 127.0.0.1 parent {oport} 0 no-query no-digest login=PASS name=pp\nnever_direct allow all\n",
    "y": "cache_peer 127.0.0.1 parent {oport} 0 no-query no-digest name=pp\nnever_direct allow all\n",
}
ORIGIN_IS_PROXY = ("x", "y")     # the stub plays a parent proxy there, not an origin server
LOGIN_PASS = ("p", "x")


def parse_fields(s):
    if s == ".":
        return []
    out = []
    for f in s.split(","):
        n, v = f.split(":")
        out.append((unhx(n), unhx(v)))
    return out


def show_fields(fs):
    return ",".join("%s:%s" % (hx(n), hx(v)) for n, v in fs) if fs else "."


def head_fields(raw_head):
    """(lower-case name, value without surrounding SP/HT) of every field line of a message head"""
    out = []
    for l in raw_head.split(b"\r\n")[1:]:
        if not l:
            continue
        n, _, v = l.partition(b":")
        out.append((n.lower(), v.strip(b" \t")))
    return out


class E2E:
    def __init__(self, stage):
        self.stage = stage
        self.origin = rig.Origin()
        self.squids = {}
        self.lock = threading.Lock()
        self.n = 0

    def squid(self, variant):
        with self.lock:
            if variant not in self.squids:
                conf = VARIANTS[variant].replace("{oport}", str(self.origin.port))
                for attempt in range(3):      # a loaded machine can take long to get a fresh squid listening
                    try:
                        self.squids[variant] = rig.Squid(self.stage, conf=conf).start(wait=40)
                        break
                    except RuntimeError:
                        if attempt == 2:
                            raise
            return self.squids[variant]

    def transact(self, sq, method, ver, url, req, body, expect=False):
        head = [("%s %s HTTP/%s" % (method, url, ver)).encode(), b"Host: origin.test"]
        head += [n + b": " + v for n, v in req]
        if expect:
            head.append(b"Expect: 100-continue")
        if body == "b":
            head.append(b"Content-Length: 3")
        if body == "s":
            head.append(b"Transfer-Encoding: chunked")
        c = rig.Client(sq.port, timeout=8)
        if body == "s":   # chunked upload in two pieces: Squid normally forwards the head before the last chunk is here
            c.send(b"\r\n".join(head) + b"\r\n\r\n1\r\na\r\n")
            time.sleep(0.1 * rig.VERIF_SLOW)
            c.send(b"2\r\nbc\r\n0\r\n\r\n")
        else:
            c.send(b"\r\n".join(head) + b"\r\n\r\n" + (b"abc" if body else b""))
        r = c.response(head_request=(method == "HEAD"))
        ctrl = None
        if r is not None and r["status"] // 100 == 1:   # a forwarded control message, the final response follows
            ctrl = r
            r = c.response(head_request=(method == "HEAD"))
        c.close()
        return r, ctrl

    def one(self, line):
        try:
            _, variant, method, ver, rq, st, rp, opts = line.split(" ")
            req, resp, status = parse_fields(rq), parse_fields(rp), int(st)
            if variant not in VARIANTS or ver not in ("1.0", "1.1"):
                return "bad-op"
        except ValueError:
            return "bad-op"
        sq = self.squid(variant)
        with self.lock:
            self.n += 1
            sid = "c%d" % self.n
        chunked = "c" in opts

        def handler(reqd):
            h = [b"HTTP/1.1 %d Status" % status, b"Date: " + rig.date_now().encode()]
            pre = b""
            if "x" in opts:    # the scenario's fields travel in a 100 Continue control message
                pre = b"\r\n".join([b"HTTP/1.1 100 Continue"] + [n + b": " + v for n, v in resp]) + b"\r\n\r\n"
            else:
                h += [n + b": " + v for n, v in resp]
            if chunked:
                h.append(b"Transfer-Encoding: chunked")
                payload = b"4\r\nbody\r\n0\r\n\r\n"
            else:
                h.append(b"Content-Length: 4")
                payload = b"body"
            if status == 204 or status // 100 == 1 or status == 304 or method == "HEAD":
                payload = b""
            return [("send", pre + b"\r\n".join(h) + b"\r\n\r\n" + payload)]
        self.origin.on(sid, handler)
        url = self.origin.url(sid, "p")
        out = []
        seen = 0
        for rnd in range(2 if "h" in opts else 1):
            r, ctrl = self.transact(sq, method, ver, url, req, "b" if "b" in opts else "s" if "s" in opts else "", "x" in opts)
            if not sq.alive():
                return "abort:squid-died " + " ".join(sq.problems()[:2])
            if r is None:
                return "no-response"
            arrivals = self.origin.requests(sid)
            new = arrivals[seen:]
            seen = len(arrivals)
            cl = "%d %s" % (r["status"], show_fields(head_fields(r["raw_head"])))
            if not r["complete"]:
                cl += " incomplete"
            if len(new) > 1:
                return "arrivals=%d" % len(new)
            ol = show_fields(head_fields(new[0]["raw_head"])) + ("/" + new[0]["framing"] if new[0]["framing"] != "none" else "") if new else "none"
            if rnd == 0:
                xs = ""
                if "x" in opts:
                    xs = " X=" + (show_fields(head_fields(ctrl["raw_head"])) if ctrl else "none")
                out.append("O=%s%s C=%s/%s" % (ol, xs, cl, r["framing"]))
            elif new:
                out.append("R2=M %s;%s/%s" % (ol, cl, r["framing"]))
            else:
                out.append("R2=H %s/%s" % (cl, r["framing"]))
        return " ".join(out)

    def close(self):
        for s in self.squids.values():
            s.stop()
        self.origin.close()


class Harness:
    def __init__(self, stage):
        self.inproc = ProcHarness([build_exe(stage)])
        self.e2e = E2E(stage)
        self.crashes = 0

    def run(self, lines):
        res = [None] * len(lines)
        idx_in = [i for i, l in enumerate(lines) if not l.startswith("E ")]
        outs = self.inproc.run([lines[i] for i in idx_in])
        for i, o in zip(idx_in, outs):
            res[i] = o
        idx_e = [i for i, l in enumerate(lines) if l.startswith("E ")]
        with ThreadPoolExecutor(max_workers=8) as ex:
            for i, o in zip(idx_e, ex.map(self.e2e.one, [lines[i] for i in idx_e])):
                res[i] = o
        # flake guard: a transaction that did not complete (timeouts under load, a retried request) is re-run alone, up to twice
        for i in idx_e:
            for _ in range(2):
                o = res[i]
                if o == "no-response" or o.startswith("arrivals=") or " incomplete" in o or " X=none" in o:
                    res[i] = self.e2e.one(lines[i])
                else:
                    break
        self.crashes = self.inproc.crashes
        return res

    def close(self):
        self.e2e.close()


def build(stage):
    return Harness(stage)


# ---------------------------------------------------------------------------------------------- RFC view of the inputs (oracle side)
TCHAR = set(b"!#$%&'*+-.^_`|~0123456789abcdefghijklmnopqrstuvwxyzABCDEFGHIJKLMNOPQRSTUVWXYZ")
STD_HOP = [b"connection", b"keep-alive", b"te", b"trailer", b"upgrade", b"proxy-connection", b"proxy-authenticate", b"transfer-encoding"]
# the ids with their own `case` in copyOneHeaderFromClientsideRequestToUpstreamRequest that may pass a field on (literal: this is the
# signature of the known finding, not something to regenerate)
OWN_CASE = [b"authorization", b"host", b"if-modified-since", b"if-none-match", b"max-forwards", b"via", b"range", b"if-range",
            b"request-range", b"content-length", b"x-forwarded-for", b"cache-control", b"front-end-https", b"proxy-authorization"]


def is_token(b):
    return len(b) > 0 and all(c in TCHAR for c in b)


def rfc_elements(value):
    """RFC 9110 5.6.1 list elements: split at commas, strip OWS (SP / HTAB)"""
    return [e.strip(b" \t") for e in value.split(b",")]


def nominated(fields):
    """lower-case names that the Connection fields of this header name as connection options"""
    names = set()
    for n, v in fields:
        if n.lower() == b"connection":
            for e in rfc_elements(v):
                if is_token(e):
                    names.add(e.lower())
    return names


def connection_values(fields):
    return [v for n, v in fields if n.lower() == b"connection"]


def cause_of_miss(fields, lname):
    """why the real list scanner may have missed `lname` although RFC list syntax names it (None: no known cause)"""
    vals = connection_values(fields)
    if any(b'"' in v for v in vals):
        return "dquote"
    return None


def own_vocabulary_ok(lname, value, framing, allowed_conn):
    """a hop-by-hop field in an outgoing message must be one Squid writes itself: -> None or complaint"""
    if lname == b"connection":
        toks = [e.lower() for e in rfc_elements(value) if e]
        bad = [t for t in toks if t not in allowed_conn]
        return ("Connection carries %r" % b",".join(bad)) if bad else None
    if lname == b"transfer-encoding":
        if value != b"chunked":
            return "Transfer-Encoding %r is not Squid's own chunked coding" % value
        if framing != "chunked":
            return "Transfer-Encoding: chunked on a message that is not chunked"
        return None
    return "%s relayed" % lname.decode("latin-1")


def judge_direction(sent, seen, framing, allowed_conn, what):
    """-> list of (complaint, lname) for one direction; `sent` raw fields, `seen` [(lname, value)]"""
    bad = []
    noms = nominated(sent)
    for ln, v in seen:
        if ln in STD_HOP:
            c = own_vocabulary_ok(ln, v, framing, allowed_conn)
            if c:
                bad.append(("%s: %s" % (what, c), ln))
    sent_vals = {}
    for n, v in sent:
        sent_vals.setdefault(n.lower(), set()).add(v.strip(b" \t\r\n\v\f"))
    for ln, v in seen:
        if ln in noms and ln not in STD_HOP and v in sent_vals.get(ln, ()):
            bad.append(("%s: field %s named by Connection was relayed" % (what, ln.decode("latin-1")), ln))
    return bad


def parse_obs(impl):
    """-> dict(o=[(n,v)]|None, oframing, status, c=[(n,v)], cframing, incomplete, r2=None|(kind, o, oframing, status, c, cframing))"""
    m2 = re.match(r"O=(\S+)(?: X=(\S+))? C=(\d+) (\S+)( incomplete)?/([a-z-]+)(.*)$", impl)
    if not m2:
        return None
    res = {"status": int(m2.group(3)), "c": parse_fields(m2.group(4)), "incomplete": bool(m2.group(5)), "cframing": m2.group(6)}
    res["x"] = None
    if m2.group(2) and m2.group(2) != "none":
        res["x"] = parse_fields(m2.group(2))
    o = m2.group(1)
    rest = m2.group(7)
    res["oframing"] = "none"
    if o == "none":
        res["o"] = None
    else:
        if "/" in o:
            o, res["oframing"] = o.split("/")
        res["o"] = parse_fields(o)
    res["r2"] = None
    rest = rest.strip()
    if rest:
        mh = re.match(r"R2=H (\d+) (\S+)( incomplete)?/([a-z-]+)$", rest)
        mm = re.match(r"R2=M (\S+);(\d+) (\S+)( incomplete)?/([a-z-]+)$", rest)
        if mh:
            res["r2"] = ("H", None, "none", int(mh.group(1)), parse_fields(mh.group(2)), mh.group(4))
        elif mm:
            o2, of2 = mm.group(1), "none"
            if "/" in o2:
                o2, of2 = o2.split("/")
            res["r2"] = ("M", parse_fields(o2) if o2 != "none" else None, of2, int(mm.group(2)), parse_fields(mm.group(3)), mm.group(5))
        else:
            return None
    return res


def split_e(l):
    _, variant, method, ver, rq, st, rp, opts = l.split(" ")
    return variant, method, ver, parse_fields(rq), int(st), parse_fields(rp), opts


def complaints(l, impl):
    """-> list of (complaint, lname, direction) for an E line"""
    variant, method, ver, req, status, resp, opts = split_e(l)
    obs = parse_obs(impl)
    if obs is None:
        return [("no usable observation: " + impl[:200], b"", "-")]
    out = []
    client_req = [(b"Host", b"origin.test")] + req
    rounds = [(obs["o"], obs["oframing"], obs["c"], obs["cframing"])]
    if obs["r2"]:
        rounds.append((obs["r2"][1], obs["r2"][2], obs["r2"][4], obs["r2"][5]))
    if "x" in opts:
        if obs["x"] is None:
            out.append(("no usable observation: the control message did not arrive", b"", "-"))
        else:
            for cmpl, ln in judge_direction(resp, obs["x"], "none", (b"keep-alive",), "to client (1xx)"):
                if ln == b"proxy-authenticate" and variant in LOGIN_PASS:
                    continue
                out.append((cmpl, ln, "1xx"))
        resp = []     # the final response carries none of the scenario's fields
    for o, oframing, c, cframing in rounds:
        if o is not None:
            for cmpl, ln in judge_direction(client_req, o, oframing, (b"keep-alive", b"close"), "to origin"):
                out.append((cmpl, ln, "req"))
            if variant not in ORIGIN_IS_PROXY and any(ln == b"proxy-authorization" for ln, _ in o):
                out.append(("to origin: Proxy-Authorization sent to an origin server", b"proxy-authorization", "req"))
        for cmpl, ln in judge_direction(resp, c, cframing, (b"keep-alive", b"close", b"proxy-support"), "to client"):
            if ln == b"proxy-authenticate" and variant in LOGIN_PASS:
                continue   # login=PASS asks Squid to relay the peer's proxy authentication challenge
            out.append((cmpl, ln, "resp"))
    return out


# ---------------------------------------------------------------------------------------------- oracle / compare / classify
def oracle(l, impl):
    if impl.startswith("abort") or impl in ("bad-op", "throw"):
        return "no usable observation: " + impl
    k = l.split(" ")[0]
    if k == "E":
        if impl == "no-response" or impl.startswith("arrivals="):
            return "no usable observation: " + impl
        cs = complaints(l, impl)
        return "; ".join(sorted(set(c for c, _, _ in cs))) if cs else None
    if k == "L":
        lst, m = unhx(l.split(" ")[1]), unhx(l.split(" ")[2])
        if b"\0" in lst:
            lst = lst[:lst.index(b"\0")]
        mm = re.search(r"member=([01])$", impl)
        if not mm:
            return "no usable observation: " + impl
        if is_token(m) and m.lower() in [e.lower() for e in rfc_elements(lst)] and mm.group(1) == "0":
            return "list element %r is not recognised as a member" % m
        return None
    if k in ("R", "K"):
        fs = parse_fields(l.split(" ")[1])
        if impl.startswith("reject:"):
            return None
        mk = re.search(r"keep=(\S+)", impl)
        if not mk:
            return "no usable observation: " + impl
        keep = [] if mk.group(1) == "." else [int(x) for x in mk.group(1).split(",")]
        noms = nominated(fs)
        bad = []
        for i in keep:
            ln = fs[i][0].rstrip(b" \t\r\n\v\f").lower()
            if ln in noms:
                bad.append("field %s named by Connection survives" % ln.decode("latin-1"))
            # (Proxy-Authenticate is not removed by removeHopByHopEntries but by buildReplyHeader itself: judged on E lines)
            if k == "R" and ln in STD_HOP and ln != b"proxy-authenticate":
                bad.append("hop-by-hop field %s survives" % ln.decode("latin-1"))
        return "; ".join(sorted(set(bad))) if bad else None
    return None


KA, CLOSE, CONN = hx(b"keep-alive"), hx(b"close"), hx(b"connection")


def _mask(model_list, impl_list, peer=False):
    """model field list (values may be `*`) against observed field list. peer: towards a cache_peer Squid offers keep-alive
    depending on the peer's keep-alive statistics (n_keepalives_recv / n_keepalives_sent, history of the whole run), so
    `close` is allowed where the model (fresh peer) says `keep-alive`"""
    if model_list == "." or impl_list == ".":
        return model_list == impl_list
    a, b = model_list.split(","), impl_list.split(",")
    if len(a) != len(b):
        return False
    for x, y in zip(a, b):
        xn, xv = x.split(":")
        yn, yv = y.split(":")
        if xn != yn or (xv != "*" and xv != yv and not (peer and xn == CONN and xv == KA and yv == CLOSE)):
            return False
    return True


def compare(l, impl, model):
    if not l.startswith("E "):
        return impl == model
    if model in ("bad-op", "reject:field", "unknown-body"):
        return impl == model
    mx = re.match(r"(O=\S+) X=(\S+)( C=.*)$", model)
    ix = re.match(r"(O=\S+) X=(\S+)( C=.*)$", impl)
    if (mx is None) != (ix is None):
        return False
    if mx:
        if not _mask(mx.group(2), ix.group(2)):
            return False
        model, impl = mx.group(1) + mx.group(3), ix.group(1) + ix.group(3)
    obs_m = re.match(r"O=(\S+) C=(\d+) (\S+)(?: H=(\S+) M=(\S+);(\S+))?$", model)
    m = re.match(r"O=(\S+?)(?:/[a-z-]+)? C=(\d+) (\S+)( incomplete)?/([a-z-]+)(?: R2=(.*))?$", impl)
    if not obs_m or not m:
        return False
    if m.group(4):
        return False
    peer = l.split(" ")[1] in ("o", "p", "x", "y")
    if not (any(_mask(alt, m.group(1), peer) for alt in obs_m.group(1).split("||")) and obs_m.group(2) == m.group(2) and _mask(obs_m.group(3), m.group(3))):
        return False
    if obs_m.group(4) is None:
        return m.group(6) is None
    r2 = m.group(6) or ""
    mh = re.match(r"H (\d+) (\S+)/([a-z-]+)$", r2)
    mm = re.match(r"M (\S+?)(?:/[a-z-]+)?;(\d+) (\S+)/([a-z-]+)$", r2)
    if mh:
        return mh.group(1) == obs_m.group(2) and _mask(obs_m.group(4), mh.group(2))
    if mm:
        return _mask(obs_m.group(5), mm.group(1), peer) and mm.group(2) == obs_m.group(2) and _mask(obs_m.group(6), mm.group(3))
    return False


def classify(l, impl, why):
    """known findings, narrowly: every complaint of the case must have the finding's cause"""
    k = l.split(" ")[0]
    if k == "E":
        variant, method, ver, req, status, resp, opts = split_e(l)
        cs = complaints(l, impl)
        if not cs:
            return None
        causes = set()
        for cmpl, ln, direction in cs:
            if direction == "1xx" and ln == b"proxy-authenticate" and cmpl.endswith("proxy-authenticate relayed"):
                causes.add("1xxpa")
                continue
            if "named by Connection was relayed" not in cmpl:
                return None
            fields = ([(b"Host", b"origin.test")] + req) if direction == "req" else split_e(l)[5]
            c = cause_of_miss(fields, ln)
            if c is None and direction == "req" and ln in OWN_CASE:
                c = "owncase"
            if c is None:
                return None
            causes.add(c)
        # every complaint is explained by a known cause; a case that mixes causes is filed under the first one
        return {"owncase": "C04-own-case-ignores-connection", "dquote": "C04-dquote-swallows-list",
                "1xxpa": "C04-1xx-proxy-authenticate-relayed"}[sorted(causes)[0]]
    if k == "L":
        lst = unhx(l.split(" ")[1])
        c = cause_of_miss([(b"Connection", lst)], None)
        return {"dquote": "C04-dquote-swallows-list"}.get(c)
    if k in ("R", "K"):
        if "hop-by-hop field" in (why or ""):
            return None
        c = cause_of_miss(parse_fields(l.split(" ")[1]), None)
        return {"dquote": "C04-dquote-swallows-list"}.get(c)
    return None


def nontrivial(l, impl, model):
    k = l.split(" ")[0]
    if k == "L":
        return "items=." not in (impl or "")
    if k in ("R", "K"):
        fs = parse_fields(l.split(" ")[1])
        return any(n.lower() in nominated(fs) or n.lower() in STD_HOP for n, v in fs)
    if k == "E":
        variant, method, ver, req, status, resp, opts = split_e(l)
        return any(n.lower() in nominated(f) or n.lower() in STD_HOP + [b"proxy-authorization"] for f in (req, resp) for n, v in f)
    return False


def tag(l, impl, model):
    k = l.split(" ")[0]
    if k == "L":
        return "L member=" + (impl or "?")[-1:]
    if k in ("R", "K"):
        return k + (" reject" if (impl or "").startswith("reject") else "")
    if k == "E":
        variant, method, ver, req, status, resp, opts = split_e(l)
        nr, np_ = len(nominated([(b"Host", b"x")] + req)), len(nominated(resp))
        r2 = " 1xx" if "x" in opts else ""
        if "R2=H" in (impl or ""):
            r2 += " hit"
        elif "R2=M" in (impl or ""):
            r2 += " miss2"
        return "E %s %s/%s conn-req=%s conn-resp=%s%s" % (variant, method, ver, "y" if nr else "n", "y" if np_ else "n", r2)
    return k


def shrink(line):
    """drop fields one at a time; shorten Connection values element by element"""
    toks = line.split(" ")
    slots = {"E": [4, 6], "R": [1], "K": [1]}.get(toks[0], [])
    for s in slots:
        fs = parse_fields(toks[s])
        # big cuts first (the framework keeps the first candidate that still fails): nothing, halves, then single fields
        cuts = [[]] if fs else []
        if len(fs) > 3:
            cuts += [fs[:len(fs) // 2], fs[len(fs) // 2:]]
        cuts += [fs[:i] + fs[i + 1:] for i in range(len(fs))]
        for cand in cuts:
            yield " ".join(toks[:s] + [show_fields(cand)] + toks[s + 1:])
        for i, (n, v) in enumerate(fs):
            if n.lower() == b"connection":
                els = v.split(b",")
                for j in range(len(els)):
                    if len(els) > 1:
                        nv = b",".join(els[:j] + els[j + 1:])
                        yield " ".join(toks[:s] + [show_fields(fs[:i] + [(n, nv)] + fs[i + 1:])] + toks[s + 1:])
    if toks[0] == "E" and toks[7] != "-":
        for ch in toks[7]:
            o = toks[7].replace(ch, "") or "-"
            yield " ".join(toks[:7] + [o])
    if toks[0] == "L":
        lst = unhx(toks[1])
        for i in range(len(lst)):
            yield " ".join(["L", hx(lst[:i] + lst[i + 1:]), toks[2]])


# ---------------------------------------------------------------------------------------------- generators
EXT_ALPHA = b"abcdefghijklmnopqrstuvwxyz0123456789"
ODD_NAMES = [b"x", b"X_1", b"x.y", b"a!b", b"x-~", b"'q'", b"x|y", b"x`z", b"x*", b"x+y", b"x#", b"x$%&", b"x^", b"9", b"-", b"X-" + b"L" * 60]
STD_REQ = [(b"Keep-Alive", b"timeout=5"), (b"TE", b"trailers"), (b"Trailer", b"X-Tr"), (b"Upgrade", b"foo/1"), (b"Proxy-Connection", b"keep-alive"),
           (b"Proxy-Authenticate", b"Basic realm=q"), (b"Proxy-Authorization", b"Basic cHJveHk6cHc="), (b"Alternate-Protocol", b"443:npn-spdy/2")]
STD_RESP = [(b"Keep-Alive", b"timeout=5, max=9"), (b"TE", b"trailers"), (b"Trailer", b"X-Tr"), (b"Upgrade", b"foo/1"), (b"Proxy-Connection", b"keep-alive"),
            (b"Proxy-Authenticate", b"Basic realm=\"o\""), (b"Alternate-Protocol", b"443:npn-spdy/2"), (b"Proxy-Authorization", b"Basic b3JpZ2lu")]
OWN_CASE_REQ = [(b"Authorization", b"Basic dXNlcjpwdw=="), (b"If-Modified-Since", b"Sat, 01 Jan 2022 00:00:00 GMT"), (b"If-None-Match", b"\"e1\""),
                (b"Range", b"bytes=0-1"), (b"If-Range", b"\"e1\""), (b"Request-Range", b"bytes=0-1"), (b"Front-End-Https", b"On"),
                (b"Max-Forwards", b"5"), (b"Via", b"1.1 other.example"), (b"X-Forwarded-For", b"192.0.2.7"), (b"Cache-Control", b"no-cache")]
E2E_REQ = [b"Accept", b"Accept-Charset", b"Accept-Language", b"Accept-Encoding", b"Cookie", b"Cookie2", b"From", b"Referer", b"User-Agent", b"Origin",
           b"Pragma", b"Priority", b"If-Match", b"Content-Language", b"Link", b"Forwarded", b"CDN-Loop", b"Translate", b"Title", b"Negotiate",
           b"Unless-Modified-Since", b"Mime-Version", b"Allow", b"X-Next-Services", b"Content-MD5", b"Content-Location"]
E2E_RESP = [b"Server", b"Content-Language", b"Set-Cookie", b"Set-Cookie2", b"Link", b"Allow", b"Public", b"Retry-After", b"Accept-Ranges",
            b"Authentication-Info", b"Proxy-Authentication-Info", b"Proxy-support", b"Content-MD5", b"Content-Location", b"Content-Disposition",
            b"Title", b"Mime-Version", b"Pragma", b"X-Squid-Error", b"Forwarded", b"Translate", b"Cookie", b"Referer", b"From", b"Origin", b"Priority"]
WS = [b"", b"", b" ", b"\t", b"  ", b" \t "]


def ext_name(rng):
    if rng.chance(1, 8):
        return rng.choice(ODD_NAMES)
    return b"X-" + rng.bytes(rng.range(1, 8), EXT_ALPHA)


def recase(rng, n):
    k = rng.below(4)
    if k == 0:
        return n
    if k == 1:
        return n.lower()
    if k == 2:
        return n.upper()
    return bytes((c ^ 0x20) if (65 <= (c & 0xdf) <= 90 and rng.chance(1, 2)) else c for c in n)


def conn_value(rng, names, mutate=False):
    """a Connection field value listing `names` with list-syntax variety"""
    els = [recase(rng, n) for n in names]
    for _ in range(rng.below(3)):
        els.insert(rng.below(len(els) + 1), rng.choice([b"", b"", b"close", b"keep-alive", b"Keep-Alive", b"CLOSE"]))
    if mutate:
        for _ in range(rng.range(1, 2)):
            junk = rng.choice([b"\v", b"\f", b"\v\f", b" \v ", b"\"", b"\"q\"", b"\"a, b\"", b"x;q=1", b"k=v", b"a b", b"\\", b"\"\\\"\"", b"\x80", b"(c)", b"a\"b"])
            els.insert(rng.below(len(els) + 1), junk)
    out = b""
    for i, e in enumerate(els):
        if i:
            out += rng.choice(WS) + b"," + rng.choice(WS)
        out += e
    if rng.chance(1, 6):
        out = b"," + out
    if rng.chance(1, 6):
        out += b","
    return out


OWN_CASE_RATE = [8]      # 1/n of the request field sets may name a field that has its own switch case (the known finding)


def field_set(rng, direction, mutate, registered_pool):
    """-> fields with 0..3 Connection fields nominating some of them"""
    fields = []
    k = 0
    def val():
        nonlocal k
        k += 1
        return b"v%d" % k
    for _ in range(rng.range(1, 5)):
        fields.append((ext_name(rng), val()))
    for _ in range(rng.below(3)):
        fields.append((rng.choice(registered_pool), val()))
    for _ in range(rng.below(3)):
        fields.append(rng.choice(STD_REQ if direction == "req" else STD_RESP))
    if direction == "req":
        for _ in range(rng.below(3)):
            fields.append(rng.choice(OWN_CASE_REQ[:7] if rng.chance(3, 4) else OWN_CASE_REQ))
    # near misses of some names
    for n, v in list(fields[:2]):
        if rng.chance(1, 3):
            fields.append((rng.choice([n + b"2", n[:-1] or b"y", b"x" + n]), val()))
    # duplicates
    if rng.chance(1, 4):
        n, v = rng.choice(fields)
        fields.append((recase(rng, n), val() if n.lower().startswith(b"x-") else v))
    rng.shuffle(fields)
    nconn = rng.choice([0, 1, 1, 1, 2, 2, 3])
    cands = [n for n, v in fields]
    if direction == "req" and not rng.chance(1, OWN_CASE_RATE[0]):
        # naming a field with its own switch case is the known finding C04-own-case-ignores-connection: keep it to a few scenarios
        cands = [n for n in cands if n.lower() not in OWN_CASE] or cands[:0]
    for _ in range(nconn):
        names = [rng.choice(cands) for _ in range(rng.below(4))] if cands else []
        if rng.chance(1, 5):
            names.append(ext_name(rng))      # names a field that is not there
        fields.insert(rng.below(len(fields) + 1), (recase(rng, b"Connection"), conn_value(rng, names, mutate)))
    # field names in random case
    return [(recase(rng, n) if rng.chance(1, 3) else n, v) for n, v in fields]


def dedupe_own_case(fields):
    """at most one of each name that Squid parses for itself (duplicates of those change request handling, not the filter)"""
    seen, out = set(), []
    for n, v in fields:
        ln = n.lower()
        if ln in (b"authorization", b"if-modified-since", b"range", b"if-range", b"request-range", b"max-forwards", b"cache-control", b"if-none-match",
                  b"proxy-authorization", b"upgrade", b"te"):
            if ln in seen:
                continue
            seen.add(ln)
        out.append((n, v))
    return out


def e_line(variant, method, ver, req, status, resp, opts):
    return "E %s %s %s %s %d %s %s" % (variant, method, ver, show_fields(req), status, show_fields(resp), opts or "-")


def e2e_cases(rng, n, mutate_rate=16):
    for i in range(n):
        mutate = rng.chance(1, mutate_rate)
        variant = rng.choice(["d", "d", "d", "d", "v", "o", "p", "x", "y"])
        method = rng.choice(["GET", "GET", "GET", "OPTIONS", "POST", "HEAD"])
        ver = "1.1" if rng.chance(5, 6) else "1.0"
        req = dedupe_own_case(field_set(rng, "req", mutate and rng.chance(1, 2), E2E_REQ))
        resp = field_set(rng, "resp", mutate and rng.chance(1, 2), E2E_RESP)
        opts = ""
        if method == "POST":
            opts += "s" if (ver == "1.1" and rng.chance(1, 3)) else "b"
            if ver == "1.1" and "b" in opts and rng.chance(1, 2):
                opts += "x"       # Expect: 100-continue; the response fields come in the origin's 100 Continue
        if rng.chance(1, 4) and method != "HEAD":
            opts += "c"
        status = rng.choice([200, 200, 200, 404, 407, 401, 203, 500])
        if "x" in opts:
            resp = [(n, v) for n, v in resp if n.lower() not in (b"content-length", b"transfer-encoding")]
        if method == "GET" and status == 200 and rng.chance(1, 3) and not any(n.lower() in (b"authorization", b"range", b"request-range", b"cache-control", b"if-range", b"if-modified-since", b"if-none-match", b"pragma", b"if-match", b"if-unmodified-since") for n, v in req):
            opts += "h"
            resp = [(n, v) for n, v in resp if n.lower() not in (b"set-cookie", b"set-cookie2")] + [(b"Cache-Control", b"max-age=1000")]
        yield e_line(variant, method, ver, req, status, resp, opts)


LIST_ALPHA = [b"a", b"B", b"-", b",", b" ", b"\t", b"\v", b"\"", b"\\", b";"]


def inproc_cases(rng, n):
    for i in range(n):
        k = rng.below(10)
        names = [ext_name(rng) for _ in range(rng.range(1, 4))]
        if k < 5:
            lst = conn_value(rng, names, mutate=rng.chance(1, 40))
            m = recase(rng, rng.choice(names)) if rng.chance(3, 4) else ext_name(rng)
            yield "L %s %s" % (hx(lst), hx(m))
        elif k < 6:
            lst = b"".join(rng.choice(LIST_ALPHA + [b"\f", b"\r", b"\n", b"=", b"\0", b"\x80"]) for _ in range(rng.range(0, 12)))
            yield "L %s %s" % (hx(lst), hx(rng.choice([b"a", b"B", b"aB", b"a-", b"-"])))
        else:
            fs = field_set(rng, "resp", rng.chance(1, 40), E2E_RESP + E2E_REQ + [n for n, v in OWN_CASE_REQ])
            yield "%s %s" % ("R" if rng.chance(3, 4) else "K", show_fields(fs))


def exhaustive_lists(maxlen, alpha=LIST_ALPHA):
    """every list over the alphabet up to maxlen, member `a` / `ab`"""
    import itertools
    for n in range(0, maxlen + 1):
        for t in itertools.product(alpha, repeat=n):
            s = b"".join(t)
            yield "L %s %s" % (hx(s), hx(b"a"))
            if n >= 2:
                yield "L %s %s" % (hx(s), hx(b"ab"))


def registry_names(stage_unused=None):
    """every registered header name, from the generated Lean table (so that the exhaustive scope follows the tree)"""
    text = open(os.path.join(VERIF, "lean", "SquidModel", "Gen", "HopByHop.lean")).read()
    return [m.group(1).encode() for m in re.finditer(r"^  \(\d+, \[[\d, ]*\], (?:true|false), (?:true|false)\),?  -- (\S+)$", text, re.M)]


# registered names whose *presence* changes how Squid handles the message (framing, validation, local replies): the per-name sweep
# leaves them to the dedicated scenarios above
SWEEP_SKIP_REQ = [b"content-length", b"transfer-encoding", b"expect", b"host", b"upgrade", b"other:", b"*invalid*:", b"content-range", b"surrogate-capability"]
SWEEP_SKIP_RESP = [b"content-length", b"transfer-encoding", b"other:", b"*invalid*:", b"content-range", b"content-encoding", b"vary", b"x-accelerator-vary", b"key",
                   b"connection", b"date", b"age", b"expires", b"cache-control", b"surrogate-control", b"www-authenticate", b"location", b"etag", b"last-modified", b"via", b"cache-status"]
TYPED_VALUES = {b"if-modified-since": b"Sat, 01 Jan 2022 00:00:00 GMT", b"if-unmodified-since": b"Sat, 01 Jan 2022 00:00:00 GMT", b"date": b"Sat, 01 Jan 2022 00:00:00 GMT",
                b"range": b"bytes=0-1", b"request-range": b"bytes=0-1", b"if-range": b"\"e\"", b"if-none-match": b"\"e\"", b"if-match": b"\"e\"", b"max-forwards": b"4",
                b"authorization": b"Basic dTpw", b"proxy-authorization": b"Basic cDpw", b"cache-control": b"no-cache", b"via": b"1.1 o.example", b"x-forwarded-for": b"192.0.2.9",
                b"etag": b"\"e\"", b"last-modified": b"Sat, 01 Jan 2022 00:00:00 GMT", b"expires": b"Sat, 01 Jan 2022 00:00:00 GMT", b"age": b"1", b"ftp-status": b"200",
                b"connection": b"x-none", b"te": b"trailers", b"surrogate-control": b"no-store", b"retry-after": b"5"}


def sweep_cases(rng):
    for name in registry_names():
        ln = name.lower()
        v = TYPED_VALUES.get(ln, b"sweep-" + ln)
        for nominate in (False, True):
            conn = [(b"Connection", recase(rng, name))] if nominate else []
            if ln not in SWEEP_SKIP_REQ and not (nominate and ln == b"connection"):
                yield e_line("d", "OPTIONS" if ln == b"max-forwards" else "GET", "1.1", conn + [(name, v), (b"X-Keep", b"k")], 200, [(b"X-R", b"r")], "")
            if ln not in SWEEP_SKIP_RESP:
                yield e_line("d", "GET", "1.1", [(b"X-Keep", b"k")], 200, conn + [(name, v), (b"X-R", b"r")], "")


def cases(rng, tier):
    thorough = tier == "thorough"
    # inputs of the known-finding classes are kept rare in the quick tier: each failing case is minimised end to end
    OWN_CASE_RATE[0] = 8 if thorough else 25
    yield from e2e_cases(rng.fork("e2e"), 2500 if thorough else 260, 16 if thorough else 50)
    yield from inproc_cases(rng.fork("inproc"), 20000 if thorough else 3000)
    if thorough:
        yield from exhaustive_lists(5)
    else:
        # quick: the full alphabet to length 3, and to length 4 without the double quote, whose lists mostly re-confirm the
        # known finding C04-dquote-swallows-list (witnesses are in the corpus)
        yield from exhaustive_lists(3)
        yield from (l for l in exhaustive_lists(4, [c for c in LIST_ALPHA if c != b"\""]) if len(l.split(" ")[1]) == 8)
    if thorough:
        yield from sweep_cases(rng.fork("sweep"))
    else:
        sw = list(sweep_cases(rng.fork("sweep")))
        rng.fork("pick").shuffle(sw)
        yield from sw[:40]


def exhaustive(tier):
    return True


KNOWN_MUST_MATCH_MODEL = True   # inside a known finding's region the observation must still equal the model's (which reproduces the listed defect); see lib/vf/run.py
