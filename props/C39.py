"""C39 ICP, HTCP and SNMP listeners tolerate arbitrary datagrams."""
import os, re, subprocess, hashlib
from vf.util import VERIF, hx, unhx
from vf.harness import ProcHarness
from vf.stage import BuildError

ID = "C39"
PROP_MODULE = "SquidModel.Properties.C39"
MODEL = "c39"
GEN = ["udp_limits"]
MINIMISE_BUDGET = 120
MAX_REPORT = 8

SNMP_BUF = 4096
HTCP_BUF = 8192
ICP_BUF = 16384
FINDING_SNMP = "C39-snmp-asn-parse-reads-past-buffer"

# compile flags for the code under test: ASan in recover mode with outlined checks (harness/c39_track.h takes the calls),
# UBSan without shift-base (asn_parse_int shifts negative ints: formally undefined, compiled as two's complement everywhere; noted, not judged)
TRACK = ["-fsanitize-recover=address", "--param", "asan-instrumentation-with-call-threshold=0", "-fno-sanitize=shift-base"]
WRAPPED = ["memcpy", "memmove", "memset", "memchr", "memcmp", "strlen", "strchr", "strpbrk", "strcspn", "strcmp", "strncmp",
           "strcasecmp", "strncasecmp"]
SNMPLIB = ["asn1", "snmp_msg", "snmp_pdu", "snmp_vars", "snmp_api", "snmp_api_error", "snmp_error", "snmplib_debug", "coexistance"]
HENV = {"ASAN_OPTIONS": "detect_leaks=0:halt_on_error=0:suppress_equal_pcs=0:symbolize=0:abort_on_error=0:exitcode=86:allocator_may_return_null=1",
        "UBSAN_OPTIONS": "print_stacktrace=0:halt_on_error=1:exitcode=86"}


def build_snmp(stage):
    built = getattr(stage, "built", None)
    if built is None:
        built = stage.built = {}
    if "c39s" in built:
        return built["c39s"]
    inc = ["-I" + os.path.join(VERIF, "harness")]
    objs = [stage.compile(os.path.join(VERIF, "harness", "c39_snmp.c"), lang_c=True, extra=inc)]
    for f in SNMPLIB:
        objs.append(stage.compile("lib/snmplib/%s.c" % f, lang_c=True, extra=TRACK))
    exe = stage.link_plain(objs, os.path.join(stage.work, "c39s"),
                           libs=[os.path.join(stage.repo, "compat", ".libs", "libcompatsquid.a")] + ["-Wl,--wrap=" + w for w in WRAPPED])
    built["c39s"] = exe
    return exe


CXX_WRAPPED = ["_Z17comm_udp_recvfromiPvmiRN2Ip7AddressE", "_Z15comm_udp_sendtoiRKN2Ip7AddressEPKvi", "_ZN4Comm9SetSelectEijPFviPvES0_l",
               "_Z14clientdbUpdateRKN2Ip7AddressERK7LogTagsN4AnyP12ProtocolTypeEm", "_Z20clientdbCutoffDeniedRKN2Ip7AddressE",
               "_Z15neighborsUdpAckPKhP12icp_common_tRKN2Ip7AddressE", "_Z18neighborsHtcpReplyPKhP13HtcpReplyDataRKN2Ip7AddressE"]


def build_udp(stage):
    """icp_v2.cc + icp_v3.cc + htcp.cc #included into harness translation units, linked like the squid binary itself"""
    from concurrent.futures import ThreadPoolExecutor
    from props.C33 import link_whole_squid
    built = getattr(stage, "built", None)
    if built is None:
        built = stage.built = {}
    if "c39u" in built:
        return built["c39u"]
    o_main = os.path.join(stage.work, "c39_main_renamed.o")
    subprocess.run(["objcopy", "--redefine-sym", "main=squid_main_unused", os.path.join(stage.repo, "src", "main.o"), o_main], check=True)
    extra = TRACK + ["-fno-sanitize=vptr", "-I" + os.path.join(VERIF, "harness"), "-g1"]
    with ThreadPoolExecutor(max_workers=2) as ex:
        f1 = ex.submit(stage.compile, os.path.join(VERIF, "harness", "c39_udp.cc"), None, True, extra)
        f2 = ex.submit(stage.compile, os.path.join(VERIF, "harness", "c39_htcp.cc"), None, True, extra)
        o1, o2 = f1.result(), f2.result()
    exe = link_whole_squid(stage, os.path.join(stage.work, "c39u"), {"icp_v2.o": None, "icp_v3.o": None, "htcp.o": None, "main.o": None},
                           [o1, o2, o_main] + ["-Wl,--wrap=" + w for w in WRAPPED + CXX_WRAPPED])
    built["c39u"] = exe
    return exe


class Harness:
    """routes a line to the executable that holds the code it exercises"""

    def __init__(self, stage):
        from concurrent.futures import ThreadPoolExecutor
        with ThreadPoolExecutor(max_workers=2) as ex:
            fs, fu = ex.submit(build_snmp, stage), ex.submit(build_udp, stage)
            self.h = {"snmp": ProcHarness([fs.result()], env=HENV), "udp": ProcHarness([fu.result()], env=HENV)}
        self.crashes = 0
        self.stage = stage
        self.e2e = None

    def run(self, lines):
        groups = {"snmp": [], "udp": [], "e2e": []}
        where = []
        for l in lines:
            g = "udp" if l[:2] in ("i ", "h ") else "e2e" if l[:2] == "e " else "snmp"
            where.append((g, len(groups[g])))
            groups[g].append(l)
        outs = {g: (self.h[g].run(ls) if ls else []) for g, ls in groups.items() if g != "e2e"}
        outs["e2e"] = []
        if groups["e2e"]:
            if self.e2e is None:      # the address-sanitized squid is built and started only when an end-to-end line shows up (thorough tier)
                from harness import c39_e2e
                self.e2e = c39_e2e.E2E(self.stage)
            outs["e2e"] = self.e2e.run(groups["e2e"])
        self.crashes = sum(h.crashes for h in self.h.values()) + (self.e2e.crashes if self.e2e else 0)
        return [outs[g][k] for g, k in where]

    def close(self):
        if self.e2e is not None:
            self.e2e.close()
            self.e2e = None


def build(stage):
    return Harness(stage)


# ------------------------------------------------------------------------------------------------ BER reference encoder

def ber_len(n, form=0):
    """form 0 = minimal; 1..4 = long form with that many octets (possibly non-minimal)"""
    if form == 0:
        if n < 0x80:
            return bytes([n])
        k = max(1, (n.bit_length() + 7) // 8)
        return bytes([0x80 | k]) + n.to_bytes(k, "big")
    return bytes([0x80 | form]) + (n % (1 << (8 * form))).to_bytes(form, "big")


class Node:
    """a TLV: either primitive content (bytes) or a list of children"""

    def __init__(self, tag, content, form=0, lie=None):
        self.tag, self.content, self.form, self.lie = tag, content, form, lie

    def enc(self):
        body = self.content if isinstance(self.content, bytes) else b"".join(c.enc() for c in self.content)
        n = len(body) if self.lie is None else max(0, len(body) + self.lie)
        return bytes([self.tag]) + ber_len(n, self.form) + body

    def leaves(self, path=()):
        if isinstance(self.content, bytes):
            yield path
        else:
            if not self.content:
                yield path
            for i, c in enumerate(self.content):
                yield from c.leaves(path + (i,))

    def cut_after(self, path):
        """a copy that ends right after the node at `path` (everything later in document order is dropped, lengths recomputed)"""
        if isinstance(self.content, bytes) or not path:
            return Node(self.tag, self.content if isinstance(self.content, bytes) else list(self.content), self.form, self.lie)
        i = path[0]
        kids = [c for c in self.content[:i]] + [self.content[i].cut_after(path[1:])]
        return Node(self.tag, kids, self.form, self.lie)

    def cut_before(self, path):
        if isinstance(self.content, bytes) or not path:
            return None
        i = path[0]
        sub = self.content[i].cut_before(path[1:])
        kids = [c for c in self.content[:i]] + ([sub] if sub is not None else [])
        return Node(self.tag, kids, self.form, self.lie)


class Raw(Node):
    """octets that are not a complete TLV (e.g. an identifier and a long-form count octet with nothing behind them)"""

    def __init__(self, data):
        Node.__init__(self, 0, data)

    def enc(self):
        return self.content


def enc_int(v, width=None):
    if width is None:
        width = 1
        while not (-(1 << (8 * width - 1)) <= v < (1 << (8 * width - 1))):
            width += 1
    return (v % (1 << (8 * width))).to_bytes(width, "big")


def enc_subid(v):
    out = [v & 0x7f]
    v >>= 7
    while v:
        out.append(0x80 | (v & 0x7f))
        v >>= 7
    return bytes(reversed(out))


def enc_oid(arcs):
    if len(arcs) < 2:
        return b""
    return enc_subid(arcs[0] * 40 + arcs[1]) + b"".join(enc_subid(a) for a in arcs[2:])


SQUID_OID = [1, 3, 6, 1, 4, 1, 3495, 1]


def gen_oid(rng):
    k = rng.below(10)
    if k < 5:
        tail = [rng.choice([1, 2, 3, 4, 5]) for _ in range(rng.range(0, 4))] + ([rng.choice([0, 1, 5, 60, 127, 128, 255, 300])] if rng.chance(1, 2) else [])
        return SQUID_OID + tail
    if k == 5:
        return [rng.range(0, 2), rng.range(0, 39)] + [rng.choice([0, 1, 127, 128, 16383, 16384, 2 ** 31, 2 ** 32 - 1, 2 ** 32, 2 ** 35 + 5]) for _ in range(rng.range(0, 6))]
    if k == 6:
        return [1, 3] + [rng.below(300) for _ in range(rng.choice([60, 61, 62, 63, 64, 65, 100, 130]))]
    if k == 7:
        return [rng.range(0, 6), rng.range(0, 80)]       # first octet beyond 2.39
    if k == 8:
        return []
    return [1, 3, 6, 1, 2, 1, 1, rng.range(1, 7), 0]


VALUE_TAGS = [5, 5, 2, 4, 6, 0x40, 0x41, 0x42, 0x43, 0x44, 0x46, 0x80, 0x81, 0x82]


def gen_value(rng, big=0):
    t = rng.choice(VALUE_TAGS) if not rng.chance(1, 12) else rng.choice([0, 1, 3, 0x10, 0x30, 0x1f, 0x3f, 0x45, 0x47, 0xa0, 0xff])
    form = 0 if not rng.chance(1, 6) else rng.range(1, 4)
    if t in (2, 0x41, 0x42, 0x43, 0x46):
        w = rng.choice([None, None, 0, 1, 2, 3, 4, 4, 5, 5, 6, 9])
        v = rng.choice([0, 1, -1, 127, 128, -128, -129, 255, 256, 32767, 2 ** 31 - 1, -2 ** 31, 2 ** 32 - 1, 2 ** 31, rng.below(2 ** 32)])
        if w == 0:
            body = b""
        elif w is None:
            body = enc_int(v)
        else:
            body = (v % (1 << (8 * w))).to_bytes(w, "big")
            if w == 5 and rng.chance(1, 2):
                body = b"\0" + body[1:]
        return Node(t, body, form)
    if t in (4, 0x40, 0x44):
        n = big if big else rng.choice([0, 1, 4, 16, 127, 128, 255, 256, 300])
        return Node(t, rng.bytes(n), form)
    if t == 6:
        return Node(t, enc_oid(gen_oid(rng)), form)
    return Node(t, b"" if rng.chance(4, 5) else rng.bytes(rng.range(1, 4)), form)


def gen_message(rng, nvars=None, fill=None):
    """-> Node tree of an SNMP message; fill = total size wanted (a string value is stretched)"""
    ver = rng.choice([0, 0, 1, 1, 2, 3, -1, 255, 70000])
    comm = rng.choice([b"public", b"public", b"", b"x", bytes(rng.range(1, 255) for _ in range(rng.choice([5, 126, 127, 128, 129]))), b"private", b"pub\0lic" if rng.chance(1, 3) else b"public"])
    cmd = rng.choice([0xa0, 0xa0, 0xa1, 0xa1, 0xa5, 0xa2, 0xa3, 0xa4, 0xa6, 0xa7, 0x30, 0x02])
    ints = [Node(2, enc_int(rng.choice([0, 1, 2, 5, -1, 127, 128, 65536, 2 ** 31 - 1, -2 ** 31, rng.below(2 ** 31)])),
                 0 if not rng.chance(1, 8) else rng.range(1, 4)) for _ in range(3)]
    if nvars is None:
        nvars = rng.choice([0, 1, 1, 1, 2, 3, 5, 12])
    vbs = []
    for _ in range(nvars):
        vbs.append(Node(0x30, [Node(6, enc_oid(gen_oid(rng)), 0 if not rng.chance(1, 8) else rng.range(1, 4)), gen_value(rng)],
                        0 if not rng.chance(1, 8) else rng.range(1, 4)))
    msg = Node(0x30, [Node(2, enc_int(ver)), Node(4, comm), Node(cmd, ints + [Node(0x30, vbs, 2 if fill else 0)], 2 if fill else 0)], 2 if fill else 0)
    if fill:
        # stretch with an extra leading varbind holding a long string so that the whole message has exactly `fill` octets
        base = len(msg.enc())
        pad_overhead = len(Node(0x30, [Node(6, enc_oid(SQUID_OID)), Node(4, b"", 2)], 2).enc())
        k = fill - base - pad_overhead
        if k >= 0:
            vbs.insert(0, Node(0x30, [Node(6, enc_oid(SQUID_OID)), Node(4, bytes([65 + (i % 26) for i in range(k)]), 2)], 2))
    return msg


def gen_canonical(rng):
    """a plain well-formed request as a management station would send it (judged by the strict reference decoder)"""
    cmd = rng.choice([0xa0, 0xa0, 0xa1, 0xa1, 0xa5, 0xa3, 0xa2])
    vbs = []
    for _ in range(rng.choice([0, 1, 1, 2, 3, 6, 20])):
        oid = SQUID_OID + [rng.range(1, 5)] + [rng.choice([0, 1, 2, 3, 127, 128, 300, 70000, 2 ** 32 - 1]) for _ in range(rng.range(0, 8))]
        if rng.chance(1, 8):
            oid = [rng.range(0, 1), rng.range(0, 39)] + oid[2:] + [7] * rng.choice([0, 20, 52])
        t = rng.choice([5, 5, 5, 2, 4, 6, 0x40, 0x41, 0x42, 0x43, 0x44, 0x80, 0x81, 0x82])
        if t == 2:
            val = Node(2, enc_int(rng.choice([0, 1, -1, 127, 128, -128, -129, 2 ** 31 - 1, -2 ** 31, rng.below(2 ** 31)])))
        elif t in (0x41, 0x42, 0x43):
            v = rng.choice([0, 1, 127, 128, 255, 65535, 2 ** 31 - 1, 2 ** 31, 2 ** 32 - 1, rng.below(2 ** 32)])
            val = Node(t, enc_int(v))             # non-negative: a leading zero octet where the top bit would be set
        elif t in (4, 0x40, 0x44):
            val = Node(t, rng.bytes(rng.choice([0, 1, 4, 30, 127, 128, 200])))
        elif t == 6:
            val = Node(6, enc_oid(SQUID_OID + [rng.below(500) for _ in range(rng.range(0, 30))]))
        else:
            val = Node(t, b"")
        vbs.append(Node(0x30, [Node(6, enc_oid(oid)), val], rng.choice([0, 0, 0, 1, 2, 3, 4])))
    ints = [enc_int(rng.choice([0, 1, 5, 127, 128, 65535, 2 ** 31 - 1, -1, rng.below(2 ** 31)])) for _ in range(3)]
    comm = rng.choice([b"public", b"public", b"private", b"", bytes(rng.range(1, 255) for _ in range(rng.choice([1, 20, 127])))])
    f = lambda: rng.choice([0, 0, 0, 1, 2, 3, 4])
    return Node(0x30, [Node(2, enc_int(rng.below(2))), Node(4, comm), Node(cmd, [Node(2, x) for x in ints] + [Node(0x30, vbs, f())], f())], f())


def tree_cuts(msg):
    """all structural truncations: the message ends right after / right before each node (lengths stay consistent)"""
    for path in msg.leaves():
        for d in range(len(path), 0, -1):
            yield msg.cut_after(path[:d])
            c = msg.cut_before(path[:d])
            if c is not None:
                yield c


def snmp_line(dg, tail=b"", general=False):
    return "%s %s %s" % ("S" if general else "s", hx(dg), hx(tail))


def mutate(rng, b):
    b = bytearray(b)
    for _ in range(rng.choice([1, 1, 1, 2, 3, 6])):
        if not b:
            break
        k = rng.below(7)
        i = rng.below(len(b))
        if k == 0:
            b[i] ^= 1 << rng.below(8)
        elif k == 1:
            b[i] = rng.choice([0, 1, 0x7f, 0x80, 0x81, 0x82, 0x83, 0x84, 0x85, 0xff, 0x30, 0x1f, 0x06, 0x02, 0x04, 0x05])
        elif k == 2:
            del b[i]
        elif k == 3:
            b.insert(i, rng.below(256))
        elif k == 4:
            j = rng.below(len(b))
            b[i:i] = b[j:j + rng.range(1, 8)]
        elif k == 5:
            del b[i:]
        else:
            b[i] = (b[i] + rng.choice([1, 255])) % 256
    return bytes(b)


def cases_snmp(rng, tier):
    thorough = tier == "thorough"
    # --- fixed seeds: smallest inputs
    for dg in [b"\x30", b"\x30\x00", b"\x30\x80", b"\x30\x84", b"\x30\x85", b"\x30\x84\xff\xff\xff\xff", b"\x1f\x00", b"\x30\x02\x02\x00",
               b"\x30\x03\x02\x01\x00", b"\x30\x05\x02\x01\x00\x04\x00", b"\x00", b"\xff", b"\x30\x81", b"\x30\x82\x00"]:
        yield snmp_line(dg)
    # all 1- and 2-octet datagrams (thorough), a diagonal otherwise
    if thorough:
        for a in range(256):
            yield snmp_line(bytes([a]))
        for a in range(256):
            for b in range(256):
                yield snmp_line(bytes([a, b]))
    else:
        for a in range(256):
            yield snmp_line(bytes([a, (a * 7 + 3) % 256]))
    # --- plain well-formed requests (the strict reference decoder judges the decoded fields)
    for _ in range(2000 if thorough else 250):
        yield snmp_line(gen_canonical(rng).enc())
    # --- valid messages, their structural truncations and raw prefixes
    nvalid = 400 if thorough else 60
    for i in range(nvalid):
        msg = gen_message(rng)
        dg = msg.enc()
        yield snmp_line(dg)
        if i % 4 == 0:
            for c in tree_cuts(msg):
                yield snmp_line(c.enc())
        if i % 8 == 1:
            for k in range(len(dg)):
                yield snmp_line(dg[:k + 1][:600])
        for _ in range(6 if thorough else 3):
            yield snmp_line(mutate(rng, dg))
        # arbitrary memory behind a short datagram (S): the bound len+6 instead of squid's zeroed slack
        for c in list(tree_cuts(msg))[:: 5 if thorough else 11]:
            e = c.enc()
            if len(e) < 3000:
                yield snmp_line(e, rng.choice([b"\x00\x84\xff\xff\xff\xff", b"\x02\x84", b"\x84\x01\x02\x03\x04", b"\x30\x83\x01\x02\x03", rng.bytes(8), b"\xff" * 8]), general=True)
    # --- datagrams that fill the receive buffer to its last octets: sizes 4089..4095 and longer (cut by recvfrom)
    sizes = [4089, 4090, 4091, 4092, 4093, 4094, 4095, 4096, 4100, 4300]
    nfill = 12 if thorough else 3
    for size in sizes:
        for _ in range(nfill):
            msg = gen_message(rng, nvars=rng.choice([1, 2, 3]), fill=size)
            dg = msg.enc()
            tail = rng.choice([b"", b"\x84\xff\xff\xff\xff", b"\x81\xff", rng.bytes(6)])
            yield snmp_line(dg, tail)
            cuts = list(tree_cuts(msg))
            for c in (cuts if thorough else cuts[-6:]):
                e = c.enc()
                if len(e) >= 4080:
                    yield snmp_line(e, tail)
    # a message whose last octets are the beginning of an object (identifier [+ long-form count octet [+ some length octets]]),
    # stretched to every size near the buffer end
    def fit(build, size):
        k = size - len(build(0).enc())      # all enclosing lengths are written in the two-octet long form: one octet more = one more
        if k < 0:
            return None
        m = build(k).enc()
        return m if len(m) == size else None

    for size in range(4088, 4097):
        for frag in [b"\x30", b"\x30\x81", b"\x30\x82", b"\x30\x83", b"\x30\x84", b"\x30\x84\x00", b"\x30\x83\x00\x00", b"\x30\x85", b"\x30\x80",
                     b"\x30\x02\x06", b"\x30\x03\x06\x84", b"\x30\x04\x06\x00\x02", b"\x30\x04\x06\x00\x02\x84"]:
            def build(k, frag=frag):
                first = Node(0x30, [Node(6, enc_oid(SQUID_OID)), Node(4, b"B" * k, 2)], 2)
                return Node(0x30, [Node(2, b"\0"), Node(4, b"public"), Node(0xa1, [Node(2, b"\2"), Node(2, b"\0"), Node(2, b"\0"), Node(0x30, [first, Raw(frag)], 2)], 2)], 2)
            m = fit(build, size)
            if m is not None:
                yield snmp_line(m, rng.choice([b"", b"\xff\xff\xff\xff"]))
    # a message ending in a variable binding without a value / a PDU without variable bindings / without error-index ...
    for size in range(4088, 4097):
        def build(k):
            first = Node(0x30, [Node(6, enc_oid(SQUID_OID)), Node(4, b"A" * k, 2)], 2)
            last = Node(0x30, [Node(6, enc_oid(SQUID_OID))])
            return Node(0x30, [Node(2, b"\0"), Node(4, b"public"), Node(0xa0, [Node(2, b"\1"), Node(2, b"\0"), Node(2, b"\0"), Node(0x30, [first, last], 2)], 2)], 2)
        m = fit(build, size)
        if m is not None:
            for tail in ([b"", b"\x84\xff\xff\xff\xff", b"\x7f"] if size >= 4093 else [b""]):
                yield snmp_line(m, tail)
    # --- random datagrams
    for _ in range(300 if thorough else 60):
        yield snmp_line(rng.bytes(rng.choice([1, 2, 3, 5, 8, 20, 40, 100])))


# ------------------------------------------------------------------------------------------------ ICP

ICP_OPS = {"QUERY": 1, "HIT": 2, "MISS": 3, "ERR": 4, "DECHO": 11, "MISS_NOFETCH": 21, "DENIED": 22, "HIT_OBJ": 23, "END": 24}
URLS = [b"http://example.com/", b"http://example.com/a?b=c", b"http://[::1]:8080/x", b"ftp://ftp.example.org/pub/f.txt", b"example.com:443",
        b"http://exa mple.com/", b"http://example.com/\tx", b"/relative", b"", b"h", b"http://", b"urn:x:y", b"http://example.com/" + b"a" * 300,
        b"\xff\xfe\x80", b"http://user:pw@example.com/", b"cache_object://localhost/info"]


def icp_msg(op, ver, url, reqnum=7, length=None, extra=None, term=True, flags=0, pad=0, shost=0):
    """reference encoder (RFC 2186): header + [requester address for queries] + URL + NUL"""
    import struct
    body = ((b"\0\0\0\0" if extra is None else extra) if op == 1 else (extra or b"")) + url + (b"\0" if term else b"")
    n = 20 + len(body)
    return struct.pack("!BBHIIII", op & 255, ver & 255, (n if length is None else length) & 0xffff, reqnum & 0xffffffff, flags, pad, shost) + body


def icp_line(dg, stale=b""):
    return "i %s %s" % (hx(dg), hx(stale))


def gen_url(rng):
    k = rng.below(8)
    if k < 5:
        return rng.choice(URLS)
    if k == 5:
        return bytes(rng.range(1, 255) for _ in range(rng.range(0, 40)))
    if k == 6:
        return b"http://h/" + bytes(rng.choice(b"abc %\t\r\n\x7f\x80") for _ in range(rng.range(0, 30)))
    return b"http://example.com/" + b"p" * rng.choice([200, 1000, 4000, 16000, 16300, 16340, 16350, 16360, 16380])


def cases_icp(rng, tier):
    thorough = tier == "thorough"
    yield icp_line(b"")
    # every length below and around the header size, both versions
    for n in range(1, 28):
        for ver in (2, 3):
            yield icp_line(bytes([1, ver]) + bytes((n >> 8, n & 255)) + b"\0" * (n - 4) if n >= 4 else bytes([1, ver][:n]))
    # every opcode x version 2/3 (+ a few other versions) with a good URL
    for op in range(0, 256 if thorough else 32):
        for ver in (2, 3):
            yield icp_line(icp_msg(op, ver, b"http://example.com/%d" % op))
    for ver in [0, 1, 4, 127, 128, 255]:
        yield icp_line(icp_msg(1, ver, b"http://example.com/"))
    n = 1500 if thorough else 250
    for _ in range(n):
        op = rng.choice([1, 1, 1, 2, 3, 11, 21, 22, 0, 4, 23, 24, 25, rng.below(256)])
        ver = rng.choice([2, 2, 2, 3, 3, rng.below(256)])
        url = gen_url(rng)
        k = rng.below(12)
        stale = rng.choice([b"", b"", b"x", b"\xff" * 8, rng.bytes(16)])
        if k < 5:
            dg = icp_msg(op, ver, url, reqnum=rng.choice([0, 1, 7, 8191, 8192, 2 ** 31, 2 ** 32 - 1]), flags=rng.choice([0, 0x80000000, 0x40000000, 0xffffffff]))
        elif k == 5:
            dg = icp_msg(op, ver, url, term=False)                              # unterminated
        elif k == 6:
            dg = icp_msg(op, ver, url + b"\0" + rng.bytes(rng.range(0, 5)))    # embedded NUL / trailing garbage
        elif k == 7:
            good = icp_msg(op, ver, url)
            dg = icp_msg(op, ver, url, length=len(good) + rng.choice([-21, -5, -1, 1, 2, 100, 40000]))   # length field lies
        elif k == 8:
            dg = icp_msg(op, ver, b"", extra=b"" if rng.chance(1, 2) else b"\0\0")   # query without (all of) the requester address
        elif k == 9:
            good = icp_msg(op, ver, url)
            cut = rng.range(0, len(good))
            dg = good[:cut]                                                      # raw truncation
            if rng.chance(1, 2) and cut >= 4:
                dg = dg[:2] + bytes((cut >> 8, cut & 255)) + dg[4:]              # ... with a consistent length field
        else:
            dg = mutate(rng, icp_msg(op, ver, url))
        yield icp_line(dg, stale)
    # sizes around the receive buffer
    for size in [16380, 16381, 16382, 16383, 16384, 16385, 16500]:
        for op in (1, 2):
            url = b"http://example.com/" + b"q" * (size - 20 - (4 if op == 1 else 0) - 1 - 19)
            yield icp_line(icp_msg(op, 2, url))
            yield icp_line(icp_msg(op, 2, url, term=False))
            yield icp_line(icp_msg(op, 3, b" " * (len(url))))     # all whitespace: the ICP_ERR reply carries the escaped URL (3x)
    for _ in range(100 if thorough else 20):
        yield icp_line(rng.bytes(rng.choice([1, 4, 19, 20, 21, 24, 25, 40, 100])))


# ------------------------------------------------------------------------------------------------ HTCP

def cstr16(b, lie=0):
    import struct
    return struct.pack("!H", (len(b) + lie) & 0xffff) + b


def htcp_msg(op, rr, f1, data, msgid=5, minor=1, resp=0, major=0, dlen=None, total=None, auth=b"\0\2", reserved=0):
    """reference encoder (RFC 2756): HEADER + DATA + AUTH; minor 0 = the bit-field layout of old Squids"""
    import struct
    dl = 8 + len(data) if dlen is None else dlen
    if minor:
        b1 = ((op & 15) << 4) | (resp & 15)
        b2 = ((reserved & 63) << 2) | ((f1 & 1) << 1) | (rr & 1)
    else:
        b1 = ((resp & 15) << 4) | (op & 15)
        b2 = ((rr & 1) << 7) | ((f1 & 1) << 6) | (reserved & 63)
    d = struct.pack("!HBBI", dl & 0xffff, b1, b2, msgid & 0xffffffff) + data
    tot = 4 + len(d) + len(auth) if total is None else total
    return struct.pack("!HBB", tot & 0xffff, major & 255, minor & 255) + d + auth


def htcp_line(dg, stale=b"", flags="-"):
    return "h %s %s %s" % (hx(dg), hx(stale), flags)


def gen_spec(rng, lies=False):
    method = rng.choice([b"GET", b"GET", b"HEAD", b"POST", b"PURGE", b"", b"G\0T", b"X" * 40])
    uri = gen_url(rng)[:3000]
    ver = rng.choice([b"1.1", b"1.0", b"", b"HTTP/1.1", b"9" * 20])
    hdrs = rng.choice([b"", b"Host: example.com\r\n\r\n", b"Accept: */*\r\nCache-Control: max-age=0\r\n\r\n", b"\r\n", b"bad header", rng.bytes(12),
                       b"X: " + b"y" * 2000 + b"\r\n\r\n"])
    parts = [method, uri, ver, hdrs]
    if not lies:
        return b"".join(cstr16(p) for p in parts), parts
    i = rng.below(4)
    return b"".join(cstr16(p, rng.choice([1, 2, -1, 100, 65000]) if j == i else 0) for j, p in enumerate(parts)), parts


def gen_detail(rng, lies=False):
    parts = [rng.choice([b"", b"Age: 3\r\n", b"Age: x\r\n", rng.bytes(8)]), rng.choice([b"", b"Expires: Thu, 01 Jan 1970 00:00:00 GMT\r\n", b"Last-Modified: x\r\n"]),
             rng.choice([b"", b"Cache-to-Origin: example.com 1 0.5 3\r\n", b"Cache-to-Origin: \r\n", b"Cache-to-Origin: " + b"h" * 300 + b" 1 2 3\r\n"])]
    i = rng.below(3) if lies else -1
    return b"".join(cstr16(p, rng.choice([1, -1, 50, 65000]) if j == i else 0) for j, p in enumerate(parts))


def cases_htcp(rng, tier):
    thorough = tier == "thorough"
    yield htcp_line(b"")
    for n in range(1, 16):
        yield htcp_line(bytes((n >> 8, n & 255, 0, 1)[:n]) + b"\0" * max(0, n - 4))
    spec, _ = gen_spec(rng)
    # every opcode x RR x F1 x format, with a specifier / a detail as payload
    for op in range(16):
        for rr in (0, 1):
            for f1 in (0, 1):
                for minor in (0, 1):
                    data = (b"\0\1" if op == 4 else b"") + (gen_detail(rng) if rr else spec)
                    yield htcp_line(htcp_msg(op, rr, f1, data, minor=minor))
                    if rr:
                        yield htcp_line(htcp_msg(op, rr, f1, data, minor=minor), b"", "m")
    # structural truncations of a TST request, a CLR request and a TST response: the DATA ends after every prefix of the payload
    for (op, rr, pre, payload, fl) in [(1, 0, b"", spec, "-"), (4, 0, b"\0\1", spec, "-"), (1, 1, b"", gen_detail(rng), "m")]:
        full = pre + payload
        for k in range(len(full) + 1):
            if k < 80 or k > len(full) - 12 or thorough:
                yield htcp_line(htcp_msg(op, rr, 1 if rr == 0 else 0, full[:k]), rng.choice([b"", b"\xff\xff\xff\xff"]), fl)
                yield htcp_line(htcp_msg(op, rr, 1 if rr == 0 else 0, full[:k], auth=b""), b"\xff\xff\xff\xff", fl)
    n = 1500 if thorough else 250
    for _ in range(n):
        k = rng.below(12)
        op = rng.choice([1, 1, 1, 4, 4, 0, 2, 3, rng.below(16)])
        rr = rng.choice([0, 0, 1])
        f1 = rng.choice([1, 1, 0])
        minor = rng.choice([1, 1, 0, 2, 255])
        lies = k in (3, 4)
        data = (b"\0" + bytes([rng.below(256)]) if op == 4 else b"") + (gen_detail(rng, lies) if (rr and op == 1) else gen_spec(rng, lies)[0])
        stale = rng.choice([b"", b"", b"\xff" * 6, rng.bytes(10)])
        fl = "m" if rr and rng.chance(2, 3) else "-"
        msgid = rng.choice([0, 0, 5, 8192, 2 ** 32 - 1, rng.below(2 ** 32)])
        auth = rng.choice([b"\0\2", b"\0\2", b"", b"\0", rng.bytes(rng.range(0, 30))])
        if k <= 4:
            dg = htcp_msg(op, rr, f1, data, msgid=msgid, minor=minor, auth=auth, resp=rng.below(16), reserved=rng.below(64))
        elif k == 5:
            dg = htcp_msg(op, rr, f1, data, msgid=msgid, minor=minor, auth=auth, dlen=rng.choice([0, 1, 7, 8, 9, len(data) + 7, len(data) + 9, len(data) + 8 + len(auth), 65535]))
        elif k == 6:
            good = htcp_msg(op, rr, f1, data, msgid=msgid, minor=minor, auth=auth)
            dg = htcp_msg(op, rr, f1, data, msgid=msgid, minor=minor, auth=auth, total=len(good) + rng.choice([-1, 1, -4, 100]))
        elif k == 7:
            dg = htcp_msg(op, rr, f1, data, msgid=msgid, minor=minor, major=rng.choice([1, 255]))
        elif k == 8:
            good = htcp_msg(op, rr, f1, data, msgid=msgid, minor=minor, auth=b"")
            cut = rng.range(0, len(good))
            dg = good[:cut]
            if cut >= 12 and rng.chance(2, 3):    # consistent truncation: both length fields follow
                dg = bytes((cut >> 8, cut & 255)) + dg[2:4] + bytes(((cut - 4) >> 8, (cut - 4) & 255)) + dg[6:]
        elif k == 9:
            dg = htcp_msg(op, rr, f1, b"", msgid=msgid, minor=minor, auth=auth)
        else:
            dg = mutate(rng, htcp_msg(op, rr, f1, data, msgid=msgid, minor=minor, auth=auth))
        yield htcp_line(dg, stale, fl)
    # sizes around the receive buffer: the specifier's last string runs up to the very end of the datagram (no AUTH behind it)
    for size in [8187, 8188, 8189, 8190, 8191, 8192, 8193, 8300]:
        for op in (1, 4):
            fixed = len(htcp_msg(op, 0, 1, (b"\0\1" if op == 4 else b"") + cstr16(b"GET") + cstr16(b"http://example.com/") + cstr16(b"1.1") + cstr16(b""), auth=b""))
            hdrs = b"H: " + b"v" * (size - fixed - 3)
            data = (b"\0\1" if op == 4 else b"") + cstr16(b"GET") + cstr16(b"http://example.com/") + cstr16(b"1.1") + cstr16(hdrs)
            yield htcp_line(htcp_msg(op, 0, 1, data, auth=b""))
            yield htcp_line(htcp_msg(op, 0, 1, data, auth=b"", minor=0))
        det = cstr16(b"Age: 1\r\n") + cstr16(b"") + cstr16(b"C: " + b"w" * (size - 12 - 6 - 8 - 3))
        yield htcp_line(htcp_msg(1, 1, 0, det, auth=b""), b"", "m")
    for _ in range(100 if thorough else 20):
        yield htcp_line(rng.bytes(rng.choice([1, 3, 4, 11, 12, 13, 20, 40, 100])), b"", rng.choice(["-", "m"]))


# ------------------------------------------------------------------------------------------------ end to end (thorough tier)

def snmp_req(cmd, oid, community=b"public", ver=0, reqid=1, value=None, bulk=(0, 10)):
    a, b = (bulk if cmd == 0xa5 else (0, 0))
    return Node(0x30, [Node(2, enc_int(ver)), Node(4, community),
                       Node(cmd, [Node(2, enc_int(reqid)), Node(2, enc_int(a)), Node(2, enc_int(b)),
                                  Node(0x30, [Node(0x30, [Node(6, enc_oid(oid)), value or Node(5, b"")])])])]).enc()


def cases_e2e(rng):
    """datagrams for the live squid: everything that goes deep into the handlers (answered queries, MIB walks, hits) plus a sample
    of the in-process streams; the lines that are known to kill an address-sanitized squid come last and are few"""
    import struct
    hit = None   # the harness caches http://127.0.0.1:<origin>/sc39/cached; the port is not known here: use wildcards below
    out = []
    # SNMP: walk the MIB with GETNEXT/GETBULK from many starting points, GET of every column with good/bad instances
    base = [1, 3, 6, 1, 4, 1, 3495, 1]
    starts = [[1, 3], [1, 3, 6, 1, 4, 1, 3495], base, base + [1], base + [2], base + [3], base + [4], base + [5], [1, 3, 6, 1, 2, 1, 1], [2, 39, 1], [0, 0], []]
    for grp in range(1, 6):
        for a in range(0, 12):
            for b in range(0, 8):
                starts.append(base + [grp, a, b])
    for grp, sub in [(3, 2), (4, 1), (5, 1), (5, 2)]:
        for col in range(0, 16):
            for inst in ([], [0], [1], [2], [255], [2 ** 32 - 1], [127, 0, 0, 1], [1, 127, 0, 0, 1], [2] + [0] * 15 + [1], [127, 0, 0], [1, 2, 3, 4, 5], [300, 300, 300, 300]):
                starts.append(base + [grp, sub, 1, col] + inst)
                starts.append(base + [grp, sub, 2, 1, col] + inst)
                starts.append(base + [grp, sub, 3, 1, col] + inst)
    for o in starts:
        for cmd in (0xa0, 0xa1, 0xa5):
            out.append(("s", snmp_req(cmd, o, reqid=rng.below(2 ** 31))))
    for o in starts[:40]:
        out.append(("s", snmp_req(0xa1, o, community=b"private")))
        out.append(("s", snmp_req(0xa3, o, value=Node(2, b"\5"))))     # SET
        out.append(("s", snmp_req(0xa1, o, ver=1)))
        out.append(("s", snmp_req(0xa2, o)))                             # a RESPONSE sent to the agent
    # many variables in one request (the answer may not fit the 4096-octet output buffer)
    for n in (2, 10, 50, 120, 200, 300):
        vbs = [Node(0x30, [Node(6, enc_oid(base + [3, 1, 1 + (i % 14), 0])), Node(5, b"")]) for i in range(n)]
        for cmd in (0xa0, 0xa1):
            out.append(("s", Node(0x30, [Node(2, b"\0"), Node(4, b"public"), Node(cmd, [Node(2, b"\1"), Node(2, b"\0"), Node(2, b"\0"), Node(0x30, vbs)])]).enc()))
    # ICP: queries (answered: miss / hit / denied for unparsable URLs), replies "from the configured peer"
    for url in URLS + [b"http://127.0.0.1:1/sc39/cached", b"http://example.com/" + b"x" * 8000]:
        for ver in (2, 3):
            out.append(("i", icp_msg(1, ver, url, reqnum=rng.below(2 ** 31), flags=rng.choice([0, 0x80000000, 0x40000000]))))
            for op in (2, 3, 4, 11, 21, 22, 23, 10, 200):
                out.append(("i", icp_msg(op, ver, url, reqnum=rng.choice([0, 1, 8191, 2 ** 31 + 5]))))
    # HTCP: TST / CLR requests that are allowed here, responses with and without detail
    for _ in range(150):
        spec, _ = gen_spec(rng)
        for minor in (0, 1):
            out.append(("h", htcp_msg(1, 0, 1, spec, msgid=rng.below(2 ** 32), minor=minor)))
            out.append(("h", htcp_msg(4, 0, rng.below(2), b"\0" + bytes([rng.below(4)]) + spec, msgid=rng.below(2 ** 32), minor=minor)))
        out.append(("h", htcp_msg(1, 1, 0, gen_detail(rng), msgid=rng.choice([0, 1, 5]))))
        out.append(("h", htcp_msg(1, 1, 1, b"", msgid=rng.choice([0, 1, 5]))))
    good = cstr16(b"GET") + cstr16(b"http://example.com/") + cstr16(b"1.1")
    for hd in [b"", b"Host: example.com\r\n\r\n", b"Range: bytes=0-\r\nIf-None-Match: *\r\n\r\n", b"A: " + b"b" * 7000 + b"\r\n\r\n", b"\xff" * 100, b"Cache-Control: " + b"x=1," * 500 + b"\r\n"]:
        out.append(("h", htcp_msg(1, 0, 1, good + cstr16(hd))))
        out.append(("h", htcp_msg(4, 0, 1, b"\0\1" + good + cstr16(hd))))
    # a sample of the in-process streams
    sample = []
    for l in cases_icp(rng.fork("icp"), "quick"):
        sample.append(("i", unhx(l.split(" ")[1])))
    for l in cases_htcp(rng.fork("htcp"), "quick"):
        sample.append(("h", unhx(l.split(" ")[1])))
    late = []
    for l in cases_snmp(rng.fork("snmp"), "quick"):
        p = l.split(" ")
        if p[0] != "s":
            continue
        dg = unhx(p[1])
        (late if len(dg) >= SNMP_BUF - 3 else sample).append(("s", dg))
    rng.shuffle(sample)
    out += sample[:2500]
    for proto, dg in out:
        if len(dg) <= 65000:
            yield "e %s %s" % (proto, hx(dg))
    # buffer-filling SNMP datagrams: a handful (each known-finding hit costs a squid restart), among them the two shapes of the
    # corpus witnesses (a last variable binding without value in 4095 octets; a last `30 84` in 4093 octets)
    rng.shuffle(late)
    picked = late[:6]
    for size, frag in ((4095, None), (4093, b"\x30\x84"), (4094, b"\x30\x83")):
        def build(k, frag=frag):
            first = Node(0x30, [Node(6, enc_oid(SQUID_OID)), Node(4, b"C" * k, 2)], 2)
            last = Raw(frag) if frag else Node(0x30, [Node(6, enc_oid(SQUID_OID))])
            return Node(0x30, [Node(2, b"\0"), Node(4, b"public"), Node(0xa0, [Node(2, b"\1"), Node(2, b"\0"), Node(2, b"\0"), Node(0x30, [first, last], 2)], 2)], 2)
        k = size - len(build(0).enc())
        picked.append(("s", build(k).enc()))
    for proto, dg in picked:
        yield "e %s %s" % (proto, hx(dg))


def cases(rng, tier):
    yield from cases_icp(rng.fork("icp"), tier)
    yield from cases_htcp(rng.fork("htcp"), tier)
    yield from cases_snmp(rng.fork("snmp"), tier)
    if tier == "thorough":
        yield from cases_e2e(rng.fork("e2e"))


# ------------------------------------------------------------------------------------------------ reference decoders (independent of squid and of the model)


def _tlv(b, i, end):
    if i + 2 > end:
        return None
    t = b[i]
    if t & 0x1f == 0x1f:
        return None
    l0 = b[i + 1]
    i += 2
    if l0 & 0x80:
        k = l0 & 0x7f
        if k == 0 or k > 4 or i + k > end:
            return None
        n = int.from_bytes(b[i:i + k], "big")
        i += k
    else:
        n = l0
    if i + n > end:
        return None
    return t, i, i + n


def _int(b, lo, hi, signed=True):
    if hi - lo < 1 or hi - lo > 4:
        return None
    return int.from_bytes(b[lo:hi], "big", signed=signed)


def _oid(b, lo, hi):
    if hi <= lo:
        return None
    subs, v, open_ = [], 0, False
    for x in b[lo:hi]:
        v = (v << 7) | (x & 0x7f)
        open_ = bool(x & 0x80)
        if not open_:
            subs.append(v)
            v = 0
    if open_ or len(subs) > 63 or any(s >= 2 ** 32 for s in subs):
        return None
    if subs[0] >= 80:        # arcs 2.x with x >= 40 ... : squid splits them differently (not judged)
        return None
    return [subs[0] // 40, subs[0] % 40] + subs[1:]


def strict_decode(dg):
    b = bytes(dg)
    r = _tlv(b, 0, len(b))
    if not r or r[0] != 0x30 or r[2] != len(b):
        return None
    i, end = r[1], r[2]
    r = _tlv(b, i, end)
    if not r or r[0] != 2:
        return None
    ver = _int(b, r[1], r[2])
    if ver not in (0, 1):
        return None
    r = _tlv(b, r[2], end)
    if not r or r[0] != 4:
        return None
    comm = b[r[1]:r[2]]
    if len(comm) > 127 or 0 in comm:
        return None
    r = _tlv(b, r[2], end)
    if not r or r[0] not in (0xa0, 0xa1, 0xa2, 0xa3, 0xa5, 0xa6, 0xa7) or r[2] != end:
        return None
    cmd, i, pend = r
    ints = []
    for _ in range(3):
        r = _tlv(b, i, pend)
        if not r or r[0] != 2:
            return None
        v = _int(b, r[1], r[2])
        if v is None:
            return None
        ints.append(v)
        i = r[2]
    r = _tlv(b, i, pend)
    if not r or r[0] != 0x30 or r[2] != pend:
        return None
    i, vend = r[1], r[2]
    vars_ = []
    while i < vend:
        r = _tlv(b, i, vend)
        if not r or r[0] != 0x30:
            return None
        j, bend = r[1], r[2]
        r2 = _tlv(b, j, bend)
        if not r2 or r2[0] != 6:
            return None
        name = _oid(b, r2[1], r2[2])
        if name is None:
            return None
        r3 = _tlv(b, r2[2], bend)
        if not r3 or r3[2] != bend:
            return None
        t, lo, hi = r3
        if t == 2:
            v = _int(b, lo, hi)
            if v is None:
                return None
            val = str(v)
        elif t in (0x41, 0x42, 0x43):
            if hi - lo == 5 and b[lo] == 0:
                lo += 1
            if hi - lo < 1 or hi - lo > 4 or (b[lo] & 0x80):      # squid sign-extends short encodings with the top bit set: not judged
                return None
            val = str(int.from_bytes(b[lo:hi], "big"))
        elif t in (4, 0x40, 0x44):
            val = b[lo:hi].hex() if hi > lo else "-"
        elif t == 6:
            o = _oid(b, lo, hi)
            if o is None:
                return None
            val = ".".join(map(str, o))
        elif t in (5, 0x80, 0x81, 0x82):
            if hi != lo:
                return None
            val = "-"
        else:
            return None
        vars_.append("%s/%d/%s" % (".".join(map(str, name)), t, val))
        i = bend
    if cmd == 0xa5:
        head = "reqid=%d es=-1 ei=-1 nr=%d mr=%d" % tuple(ints)
    else:
        head = "reqid=%d es=%d ei=%d nr=0 mr=0" % tuple(ints)
    co = 1 if cmd in (0xa0, 0xa1, 0xa5) else 0
    return "ok ver=%d comm=%s cmd=%d %s co=%d vars=%d%s" % (ver, comm.hex() if comm else "-", cmd, head, co, len(vars_), "".join(" " + v for v in vars_))


def icp_reference(dg):
    """for a well-formed ICP v2/v3 message with an opcode squid acts on: ('url'|'reply-url', URL octets), else None"""
    b = bytes(dg)
    if len(b) < 21 or b[1] not in (2, 3) or int.from_bytes(b[2:4], "big") != len(b) or b[-1] != 0:
        return None
    op = b[0]
    if op == 1:
        if len(b) < 25:
            return None
        url, kind = b[24:-1], "url"
    elif op in (2, 3, 11, 21, 22):
        url, kind = b[20:-1], "reply-url"
    else:
        return None
    return None if 0 in url else (kind, url)


# ------------------------------------------------------------------------------------------------ oracle (the property, not the model)

def parse_out(impl):
    d = {}
    for tok in impl.split(" "):
        if "=" in tok:
            k, v = tok.split("=", 1)
            if k not in d:
                d[k] = v
    return d


BUF = {"s": SNMP_BUF, "S": SNMP_BUF, "i": ICP_BUF, "h": HTCP_BUF}


def dg_len(line):
    p = line.split(" ")
    if p[0] == "e":
        n = 0 if p[2] == "-" else len(p[2]) // 2
        return min(n, BUF[p[1]] - 1)
    n = 0 if p[1] == "-" else len(p[1]) // 2
    return min(n, BUF[p[0]] - 1)      # recvfrom is given one octet less than the buffer


def oracle(line, impl):
    op = line.split(" ")[0]
    if impl.startswith("abort:"):
        return "sanitizer/abort: " + impl
    if impl.startswith("bad-"):
        return "harness rejected the line: " + impl
    if impl.startswith("reject:"):
        return None          # an empty SNMP datagram: snmpHandleUdp does not look at it (len > 0 is required)
    if op == "e":
        return None if impl.startswith("alive") else "the address-sanitized squid did not survive the datagram / stopped serving HTTP: " + impl
    d = parse_out(impl)
    if "asan" in d:
        return "AddressSanitizer report while handling the datagram: %s (over=%s)" % (d["asan"], d.get("over"))
    if "over" not in d:
        return "no access summary in the harness output: " + impl[:80]
    if op in ("s", "i", "h"):
        over = int(d["over"])
        if dg_len(line) + over > BUF[op]:
            return "access %d octet(s) past the %d-octet receive buffer" % (dg_len(line) + over - BUF[op], BUF[op])
    if op in ("i", "h") and "!" in d.get("nul", ""):
        return "the handler wrote something other than a terminator into the receive buffer"
    # faithfulness on well-formed input (reference decoders): a listener that "tolerates" datagrams by dropping good ones is not what is meant
    if op == "s":
        want = strict_decode(unhx(line.split(" ")[1])[:SNMP_BUF - 1])
        if want is not None and re.sub(r" over=\d+.*", "", impl) != want:
            return "a well-formed SNMP message is not decoded to its fields: expected " + want[:200]
    if op == "i":
        ref = icp_reference(unhx(line.split(" ")[1])[:ICP_BUF - 1])
        if ref is not None:
            kind, url = ref
            main = impl.split(" |")[0]
            if kind == "reply-url" and (" reply-url=%s " % hx(url)) not in main + " ":
                return "a well-formed ICP reply's URL is not the one handed on"
            if kind == "url" and " url:" in main:
                return "a well-formed ICP query is refused as malformed"
            if kind == "url" and " url=" in main and (" url=%s " % hx(url)) not in main + " ":
                return "a well-formed ICP query's URL is not the one answered"
    return None


def compare(line, impl, model):
    if line.startswith("e "):
        return True          # judged by the oracle alone
    # the model predicts neither sanitizer reports (the oracle's business) nor what happens once the URL has been handed to
    # the URL parser / ACLs / neighbor tables (behind the " |")
    i = re.sub(r" asan=\S+", "", impl.split(" |")[0])
    if i == model:
        return True
    if line.startswith("i ") and " url=" in model and " url=" not in i:
        # the query's URL is visible in the reply only when the reply is ICP_DENIED (ICP_ERR carries an escaped/absent one)
        return i == re.sub(r" url=\S+", "", model)
    return False


def classify(line, impl, why):
    """the one known finding, narrowly: an SNMP datagram that leaves fewer than four octets of the receive buffer unused, whose
    decoding *fails* (the over-read is always the look at the identifier/length octets of an object that is not there), with
    2..6 octets touched behind the datagram and exactly that many minus the unused octets behind the buffer"""
    p = line.split(" ")
    n = dg_len(line)
    if p[0] == "e":
        # the same finding seen end to end: ASan stops squid with a global-buffer-overflow read in asn_parse_length/asn_parse_* on snmpHandleUdp's buf
        if p[1] == "s" and SNMP_BUF - 3 <= n <= SNMP_BUF - 1 and impl.startswith("abort:squid-died") and "global-buffer-overflow" in impl:
            return FINDING_SNMP
        return None
    if p[0] == "s" and SNMP_BUF - 3 <= n <= SNMP_BUF - 1 and why and ("past the" in why or "AddressSanitizer" in why):
        d = parse_out(impl)
        over = int(d.get("over", "0")) if d.get("over", "0").isdigit() else 0
        if impl.startswith("fail ") and 2 <= over <= 6 and n + over > SNMP_BUF and ("asan" not in d or d["asan"] == "use-after-poison"):
            return FINDING_SNMP
    return None


def shrink(line):
    p = line.split(" ")
    if p[0] == "e":
        return               # every candidate costs a squid restart
    if len(p) < 2 or p[1] == "-":
        return
    b = unhx(p[1])
    rest = p[2:]
    n = len(b)
    step = max(1, n // 2)
    while step >= 1:
        for off in range(0, n, step):
            c = b[:off] + b[off + step:]
            if c:
                yield " ".join([p[0], hx(c)] + rest)
        step //= 2
    if rest and rest[0] != "-":
        yield " ".join([p[0], p[1], "-"] + rest[1:])


def nontrivial(line, impl, model):
    op = line[0]
    if op == "e":
        return "reply=" in impl and "reply=none" not in impl
    if op in "sS":
        return impl.startswith("ok ") or (impl.startswith("fail") and "dbg=0" in impl) or (impl.startswith("fail") and "dbg=8" in impl)
    if op == "i":
        return " url" in impl or "reply-url" in impl
    return "left=" in impl or "bad:" in impl or "short:" in impl


def tag(line, impl, model):
    op = line.split(" ")[0]
    if op == "e":
        return "e %s %s" % (line.split(" ")[1], "replied" if ("reply=" in impl and "reply=none" not in impl) else impl.split(" ")[0])
    d = parse_out(impl)
    if op == "i":
        m = re.search(r" (ignore:\w+|badlen|url:\w+|url=|reply-url=|unknown-op)", impl)
        return "i %s over=%s" % (m.group(1) if m else "nop", d.get("over"))
    if op == "h":
        m = re.findall(r"(drop:[\w-]+|nop|mon|set|tst:empty|left=|dleft=|bad:[\w-]+|short:[A-Za-z-]+|rsp:\w+)", impl.split(" |")[0])
        return "h %s over=%s" % ("+".join(x.rstrip("=") for x in m[-2:]) if m else "silent", d.get("over"))
    if impl.startswith("ok"):
        return "%s ok vars=%s over=%s" % (op, "0" if d.get("vars") == "0" else "1" if d.get("vars") == "1" else "2+", d.get("over"))
    if impl.startswith("fail"):
        return "%s fail dbg=%s over=%s" % (op, d.get("dbg"), d.get("over"))
    return op + " " + impl.split(" ")[0][:24]


def exhaustive(tier):
    return tier == "thorough"


RULE = ("i <dg> <stale>: icpHandleUdp on its own static buffer (wrapped recvfrom): every length 1..27 x v2/v3, every opcode x v2/v3, reference "
        "messages (RFC 2186) with URLs from a pool / random / 16 KB, unterminated, embedded NUL, lying length field, missing requester "
        "address, raw and consistent truncations, mutations, sizes 16380..16500; h <dg> <stale> <m|->: htcpRecv likewise: every opcode x RR x "
        "F1 x both bit-field layouts, structural truncation of TST/CLR/response payloads at every offset, lying counted-string lengths, "
        "DATA/total length lies, missing AUTH with stale octets behind the datagram, sizes 8187..8300, outstanding-query flag; "
        "s <dg> <tail>: snmp_parse in snmpHandleUdp's geometry (zeroed 4096-octet buffer, <tail> behind it): all 1-octet and (thorough) all "
        "2-octet datagrams, plain well-formed requests (judged field by field by an independent strict decoder), messages from a reference BER encoder (versions, communities 0..129 octets, all PDU types, OIDs up to 130 arcs "
        "and 2^35 sub-identifiers, every value type, long-form lengths), all structural truncations (message ends after/before every "
        "node with enclosing lengths recomputed), raw prefixes, mutations, messages stretched to 4088..4300 octets incl. the ones ending in "
        "a partial object; S: the same with arbitrary octets directly behind the datagram; e <proto> <dg> (thorough): the relinked "
        "address-sanitized squid with the three ports enabled: MIB walks (GET/GETNEXT/GETBULK from ~2800 OIDs incl. bad table instances), "
        "answered ICP queries and neighbor replies, allowed HTCP TST/CLR, a sample of the streams above, buffer-filling SNMP datagrams; "
        "HTTP liveness probe after every 20 datagrams. Oracle: no sanitizer report/abort, len + over <= buffer size, only zeros written, "
        "well-formed SNMP messages decode to the reference fields, well-formed ICP URLs are the ones handed on. non-trivial = decoding got past the framing (s: ok or failed inside PDU/bindings; "
        "i: a URL was extracted; h: an unpacker ran; e: squid replied); distinct = distinct input lines")
TRUSTED = ["modelled, not verified: memcpy/ntohs/ntohl/strlen get their list/arithmetic meaning; `value << 8` on a negative int in "
           "asn_parse_int (formally undefined) is given the two's complement meaning every compiler here gives it (UBSan's shift-base "
           "check is off for the code under test); the C bit-fields of htcpDataHeader/htcpDataHeaderSquid are modelled by their x86-64 "
           "layout and tied by the differential run for both `minor` values",
           "access tracking: the code under test is compiled with outlined ASan checks (--param asan-instrumentation-with-call-threshold=0, "
           "recover mode) that the harness intercepts (harness/c39_track.h) plus --wrap'ed libc string/memory routines; `over` is what "
           "these report, compared with the model's prediction on every case",
           "the in-process ICP/HTCP harness links the whole squid but wraps comm_udp_recvfrom/comm_udp_sendto/Comm::SetSelect/clientdb*/"
           "neighborsUdpAck/neighborsHtcpReply; squid is not configured there (no ACLs: every query is denied after URL parsing)"]
ASSUMPTIONS = ["len < buffer size: recvfrom is given one octet less than each static buffer (checked on the source text by the translator: "
               "a constant of 0 in Gen.UdpLimits breaks the proofs otherwise)",
               "single-process squid (-N): the SMP path of snmpConstructReponse (Snmp::Forwarder) is not exercised",
               "end-to-end: only the listed translation units are ASan-instrumented (heap and libc interceptors are process-wide)"]
MANIFEST = {
    "engine": "e2e",
    "text": "partial: the statement is false for SNMP in the tree as found and proved so: asn_parse_* read identifier/length octets before "
            "looking at the remaining length, so a datagram of 4093..4095 octets that ends where an object is expected makes the decoder read "
            "1..5 octets behind snmpHandleUdp's 4096-octet buffer (theorems snmp_no_oob_counterexample_4095/_4095_deep/_4093 by kernel "
            "evaluation of the model on concrete datagrams; reproduced in-process and on the relinked address-sanitized squid: ASan "
            "global-buffer-overflow 0 bytes right of `buf`, squid stops). Proved for every datagram and every memory content around it: the "
            "SNMP decoder (asn_parse_length/header/int/unsigned_int/string/objid, snmp_msg_Decode, snmp_pdu_decode, "
            "snmp_var_DecodeVarBind) touches at most 6 octets behind the datagram, at most 4 when the two octets behind it are zero "
            "(snmpHandleUdp's memset), hence nothing outside the buffer for datagrams of at most 4092 octets (snmp_no_oob_partial), and "
            "nothing behind the datagram at all with the candidate fix (snmp_no_oob_fixed; the model carries both variants, a flag read "
            "from the source selects the one the driver runs); decoding always terminates in a message or one of squid's failure classes "
            "and whatever is decoded fits Community[128], Var->name[64] and TmpBuf[64]. ICP (icpHandleUdp, icpHandleIcpV2/V3, "
            "icpGetUrl): all reads inside the datagram, the only store is the terminator behind it, inside the buffer; an extracted URL is "
            "exactly the NUL-free payload; the (even fully escaped) reply length fits 16 bits. HTCP (htcpHandleMsg, TST/CLR handlers, "
            "htcpUnpackSpecifier/Detail): all reads inside the datagram, stores only zeros and at most one octet behind it, inside the "
            "buffer. The models are tied to the real code by a differential run that also compares how far behind the datagram the code "
            "reached; the live UDP ports of an address-sanitized squid are exercised in the thorough tier with an HTTP liveness probe. "
            "The model cannot exhibit: use after free, what the handlers do after decoding (URL parsing, ACL checks, store lookups, "
            "SNMP agent tree walk, reply construction), event-loop behaviour; these are covered only by the sanitizer runs",
    "note": "trusted: Lean kernel (+axioms as printed), translator of buffer sizes/capacities/variant flag, access-tracking harness, python "
            "reference encoders; specified not verified: libc primitives, bit-field layout; not modelled: snmp_core.cc tree walk and "
            "snmp_agent.cc, neighbors.cc, HttpRequest::FromUrlXXX, heap lifetime",
    "technique": "Lean 4 proof (access-extent monad, generic bound parametrised by a header-read predicate with three instances, induction on "
                 "the iteration budget, kernel-evaluated counterexamples) + constants/variant translator + ASan(recover, outlined) access "
                 "tracking differential run + relinked address-sanitized squid end to end",
}
