"""C39 ICP, HTCP and SNMP listeners tolerate arbitrary datagrams."""
import os, re, subprocess, hashlib
from vf.util import VERIF, hx, unhx
from vf.harness import ProcHarness
from vf.stage import BuildError

ID = "C39"
PROP_MODULE = "SquidModel.Properties.C39"
MODEL = "c39"
GEN = ["udp_limits"]
MINIMISE_BUDGET = 120
MAX_REPORT = 8

SNMP_BUF = 4096
HTCP_BUF = 8192
ICP_BUF = 16384
FINDING_SNMP = "C39-snmp-asn-parse-reads-past-buffer"

# compile flags for the code under test: ASan in recover mode with outlined checks (harness/c39_track.h takes the calls),
# UBSan without shift-base (asn_parse_int shifts negative ints: formally undefined, compiled as two's complement everywhere; noted, not judged)
TRACK = ["-fsanitize-recover=address", "--param", "asan-instrumentation-with-call-threshold=0", "-fno-sanitize=shift-base"]
WRAPPED = ["memcpy", "memmove", "memset", "memchr", "memcmp", "strlen", "strchr", "strpbrk", "strcspn", "strcmp", "strncmp",
           "strcasecmp", "strncasecmp"]
SNMPLIB = ["asn1", "snmp_msg", "snmp_pdu", "snmp_vars", "snmp_api", "snmp_api_error", "snmp_error", "snmplib_debug", "coexistance"]
HENV = {"ASAN_OPTIONS": "detect_leaks=0:halt_on_error=0:suppress_equal_pcs=0:symbolize=0:abort_on_error=0:exitcode=86:allocator_may_return_null=1",
        "UBSAN_OPTIONS": "print_stacktrace=0:halt_on_error=1:exitcode=86"}


def build_snmp(stage):
    built = getattr(stage, "built", None)
    if built is None:
        built = stage.built = {}
    if "c39s" in built:
        return built["c39s"]
    inc = ["-I" + os.path.join(VERIF, "harness")]
    objs = [stage.compile(os.path.join(VERIF, "harness", "c39_snmp.c"), lang_c=True, extra=inc)]
    for f in SNMPLIB:
        objs.append(stage.compile("lib/snmplib/%s.c" % f, lang_c=True, extra=TRACK))
    exe = stage.link_plain(objs, os.path.join(stage.work, "c39s"),
                           libs=[os.path.join(stage.repo, "compat", ".libs", "libcompatsquid.a")] + ["-Wl,--wrap=" + w for w in WRAPPED])
    built["c39s"] = exe
    return exe


CXX_WRAPPED = ["_Z17comm_udp_recvfromiPvmiRN2Ip7AddressE", "_Z15comm_udp_sendtoiRKN2Ip7AddressEPKvi", "_ZN4Comm9SetSelectEijPFviPvES0_l",
               "_Z14clientdbUpdateRKN2Ip7AddressERK7LogTagsN4AnyP12ProtocolTypeEm", "_Z20clientdbCutoffDeniedRKN2Ip7AddressE",
               "_Z15neighborsUdpAckPKhP12icp_common_tRKN2Ip7AddressE", "_Z18neighborsHtcpReplyPKhP13HtcpReplyDataRKN2Ip7AddressE"]


def build_udp(stage):
    """icp_v2.cc + icp_v3.cc + htcp.cc #included into harness translation units, linked like the squid binary itself"""
    from concurrent.futures import ThreadPoolExecutor
    from props.C33 import link_whole_squid
    built = getattr(stage, "built", None)
    if built is None:
        built = stage.built = {}
    if "c39u" in built:
        return built["c39u"]
    o_main = os.path.join(stage.work, "c39_main_renamed.o")
    subprocess.run(["objcopy", "--redefine-sym", "main=squid_main_unused", os.path.join(stage.repo, "src", "main.o"), o_main], check=True)
    extra = TRACK + ["-fno-sanitize=vptr", "-I" + os.path.join(VERIF, "harness"), "-g1"]
    with ThreadPoolExecutor(max_workers=2) as ex:
        f1 = ex.submit(stage.compile, os.path.join(VERIF, "harness", "c39_udp.cc"), None, True, extra)
        f2 = ex.submit(stage.compile, os.path.join(VERIF, "harness", "c39_htcp.cc"), None, True, extra)
        o1, o2 = f1.result(), f2.result()
    exe = link_whole_squid(stage, os.path.join(stage.work, "c39u"), {"icp_v2.o": None, "icp_v3.o": None, "htcp.o": None, "main.o": None},
                           [o1, o2, o_main] + ["-Wl,--wrap=" + w for w in WRAPPED + CXX_WRAPPED])
    built["c39u"] = exe
    return exe


class Harness:
    """routes a line to the executable that holds the code it exercises"""

    def __init__(self, stage):
        self.snmp = ProcHarness([build_snmp(stage)], env=HENV)
        self.crashes = 0

    def run(self, lines):
        groups = {"snmp": []}
        where = []
        for l in lines:
            g = "snmp"
            where.append((g, len(groups[g])))
            groups[g].append(l)
        outs = {"snmp": self.snmp.run(groups["snmp"]) if groups["snmp"] else []}
        self.crashes = self.snmp.crashes
        return [outs[g][k] for g, k in where]


def build(stage):
    return Harness(stage)


# ------------------------------------------------------------------------------------------------ BER reference encoder

def ber_len(n, form=0):
    """form 0 = minimal; 1..4 = long form with that many octets (possibly non-minimal)"""
    if form == 0:
        if n < 0x80:
            return bytes([n])
        k = max(1, (n.bit_length() + 7) // 8)
        return bytes([0x80 | k]) + n.to_bytes(k, "big")
    return bytes([0x80 | form]) + (n % (1 << (8 * form))).to_bytes(form, "big")


class Node:
    """a TLV: either primitive content (bytes) or a list of children"""

    def __init__(self, tag, content, form=0, lie=None):
        self.tag, self.content, self.form, self.lie = tag, content, form, lie

    def enc(self):
        body = self.content if isinstance(self.content, bytes) else b"".join(c.enc() for c in self.content)
        n = len(body) if self.lie is None else max(0, len(body) + self.lie)
        return bytes([self.tag]) + ber_len(n, self.form) + body

    def leaves(self, path=()):
        if isinstance(self.content, bytes):
            yield path
        else:
            if not self.content:
                yield path
            for i, c in enumerate(self.content):
                yield from c.leaves(path + (i,))

    def cut_after(self, path):
        """a copy that ends right after the node at `path` (everything later in document order is dropped, lengths recomputed)"""
        if isinstance(self.content, bytes) or not path:
            return Node(self.tag, self.content if isinstance(self.content, bytes) else list(self.content), self.form, self.lie)
        i = path[0]
        kids = [c for c in self.content[:i]] + [self.content[i].cut_after(path[1:])]
        return Node(self.tag, kids, self.form, self.lie)

    def cut_before(self, path):
        if isinstance(self.content, bytes) or not path:
            return None
        i = path[0]
        sub = self.content[i].cut_before(path[1:])
        kids = [c for c in self.content[:i]] + ([sub] if sub is not None else [])
        return Node(self.tag, kids, self.form, self.lie)


def enc_int(v, width=None):
    if width is None:
        width = 1
        while not (-(1 << (8 * width - 1)) <= v < (1 << (8 * width - 1))):
            width += 1
    return (v % (1 << (8 * width))).to_bytes(width, "big")


def enc_subid(v):
    out = [v & 0x7f]
    v >>= 7
    while v:
        out.append(0x80 | (v & 0x7f))
        v >>= 7
    return bytes(reversed(out))


def enc_oid(arcs):
    if len(arcs) < 2:
        return b""
    return enc_subid(arcs[0] * 40 + arcs[1]) + b"".join(enc_subid(a) for a in arcs[2:])


SQUID_OID = [1, 3, 6, 1, 4, 1, 3495, 1]


def gen_oid(rng):
    k = rng.below(10)
    if k < 5:
        tail = [rng.choice([1, 2, 3, 4, 5]) for _ in range(rng.range(0, 4))] + ([rng.choice([0, 1, 5, 60, 127, 128, 255, 300])] if rng.chance(1, 2) else [])
        return SQUID_OID + tail
    if k == 5:
        return [rng.range(0, 2), rng.range(0, 39)] + [rng.choice([0, 1, 127, 128, 16383, 16384, 2 ** 31, 2 ** 32 - 1, 2 ** 32, 2 ** 35 + 5]) for _ in range(rng.range(0, 6))]
    if k == 6:
        return [1, 3] + [rng.below(300) for _ in range(rng.choice([60, 61, 62, 63, 64, 65, 100, 130]))]
    if k == 7:
        return [rng.range(0, 6), rng.range(0, 80)]       # first octet beyond 2.39
    if k == 8:
        return []
    return [1, 3, 6, 1, 2, 1, 1, rng.range(1, 7), 0]


VALUE_TAGS = [5, 5, 2, 4, 6, 0x40, 0x41, 0x42, 0x43, 0x44, 0x46, 0x80, 0x81, 0x82]


def gen_value(rng, big=0):
    t = rng.choice(VALUE_TAGS) if not rng.chance(1, 12) else rng.choice([0, 1, 3, 0x10, 0x30, 0x1f, 0x3f, 0x45, 0x47, 0xa0, 0xff])
    form = 0 if not rng.chance(1, 6) else rng.range(1, 4)
    if t in (2, 0x41, 0x42, 0x43, 0x46):
        w = rng.choice([None, None, 0, 1, 2, 3, 4, 4, 5, 5, 6, 9])
        v = rng.choice([0, 1, -1, 127, 128, -128, -129, 255, 256, 32767, 2 ** 31 - 1, -2 ** 31, 2 ** 32 - 1, 2 ** 31, rng.below(2 ** 32)])
        if w == 0:
            body = b""
        elif w is None:
            body = enc_int(v)
        else:
            body = (v % (1 << (8 * w))).to_bytes(w, "big")
            if w == 5 and rng.chance(1, 2):
                body = b"\0" + body[1:]
        return Node(t, body, form)
    if t in (4, 0x40, 0x44):
        n = big if big else rng.choice([0, 1, 4, 16, 127, 128, 255, 256, 300])
        return Node(t, rng.bytes(n), form)
    if t == 6:
        return Node(t, enc_oid(gen_oid(rng)), form)
    return Node(t, b"" if rng.chance(4, 5) else rng.bytes(rng.range(1, 4)), form)


def gen_message(rng, nvars=None, fill=None):
    """-> Node tree of an SNMP message; fill = total size wanted (a string value is stretched)"""
    ver = rng.choice([0, 0, 1, 1, 2, 3, -1, 255, 70000])
    comm = rng.choice([b"public", b"public", b"", b"x", bytes(rng.range(1, 255) for _ in range(rng.choice([5, 126, 127, 128, 129]))), b"pub\0lic"])
    cmd = rng.choice([0xa0, 0xa0, 0xa1, 0xa1, 0xa5, 0xa2, 0xa3, 0xa4, 0xa6, 0xa7, 0x30, 0x02])
    ints = [Node(2, enc_int(rng.choice([0, 1, 2, 5, -1, 127, 128, 65536, 2 ** 31 - 1, -2 ** 31, rng.below(2 ** 31)])),
                 0 if not rng.chance(1, 8) else rng.range(1, 4)) for _ in range(3)]
    if nvars is None:
        nvars = rng.choice([0, 1, 1, 1, 2, 3, 5, 12])
    vbs = []
    for _ in range(nvars):
        vbs.append(Node(0x30, [Node(6, enc_oid(gen_oid(rng)), 0 if not rng.chance(1, 8) else rng.range(1, 4)), gen_value(rng)],
                        0 if not rng.chance(1, 8) else rng.range(1, 4)))
    msg = Node(0x30, [Node(2, enc_int(ver)), Node(4, comm), Node(cmd, ints + [Node(0x30, vbs, 2 if fill else 0)], 2 if fill else 0)], 2 if fill else 0)
    if fill:
        # stretch with an extra leading varbind holding a long string so that the whole message has exactly `fill` octets
        base = len(msg.enc())
        pad_overhead = len(Node(0x30, [Node(6, enc_oid(SQUID_OID)), Node(4, b"", 2)], 2).enc())
        k = fill - base - pad_overhead
        if k >= 0:
            vbs.insert(0, Node(0x30, [Node(6, enc_oid(SQUID_OID)), Node(4, bytes([65 + (i % 26) for i in range(k)]), 2)], 2))
    return msg


def tree_cuts(msg):
    """all structural truncations: the message ends right after / right before each node (lengths stay consistent)"""
    for path in msg.leaves():
        for d in range(len(path), 0, -1):
            yield msg.cut_after(path[:d])
            c = msg.cut_before(path[:d])
            if c is not None:
                yield c


def snmp_line(dg, tail=b"", general=False):
    return "%s %s %s" % ("S" if general else "s", hx(dg), hx(tail))


def mutate(rng, b):
    b = bytearray(b)
    for _ in range(rng.choice([1, 1, 1, 2, 3, 6])):
        if not b:
            break
        k = rng.below(7)
        i = rng.below(len(b))
        if k == 0:
            b[i] ^= 1 << rng.below(8)
        elif k == 1:
            b[i] = rng.choice([0, 1, 0x7f, 0x80, 0x81, 0x82, 0x83, 0x84, 0x85, 0xff, 0x30, 0x1f, 0x06, 0x02, 0x04, 0x05])
        elif k == 2:
            del b[i]
        elif k == 3:
            b.insert(i, rng.below(256))
        elif k == 4:
            j = rng.below(len(b))
            b[i:i] = b[j:j + rng.range(1, 8)]
        elif k == 5:
            del b[i:]
        else:
            b[i] = (b[i] + rng.choice([1, 255])) % 256
    return bytes(b)


def cases_snmp(rng, tier):
    thorough = tier == "thorough"
    # --- fixed seeds: smallest inputs
    for dg in [b"\x30", b"\x30\x00", b"\x30\x80", b"\x30\x84", b"\x30\x85", b"\x30\x84\xff\xff\xff\xff", b"\x1f\x00", b"\x30\x02\x02\x00",
               b"\x30\x03\x02\x01\x00", b"\x30\x05\x02\x01\x00\x04\x00", b"\x00", b"\xff", b"\x30\x81", b"\x30\x82\x00"]:
        yield snmp_line(dg)
    # all 1- and 2-octet datagrams (thorough), a diagonal otherwise
    if thorough:
        for a in range(256):
            yield snmp_line(bytes([a]))
        for a in range(256):
            for b in range(256):
                yield snmp_line(bytes([a, b]))
    else:
        for a in range(256):
            yield snmp_line(bytes([a, (a * 7 + 3) % 256]))
    # --- valid messages, their structural truncations and raw prefixes
    nvalid = 400 if thorough else 60
    for i in range(nvalid):
        msg = gen_message(rng)
        dg = msg.enc()
        yield snmp_line(dg)
        if i % 4 == 0:
            for c in tree_cuts(msg):
                yield snmp_line(c.enc())
        if i % 8 == 1:
            for k in range(len(dg)):
                yield snmp_line(dg[:k + 1][:600])
        for _ in range(6 if thorough else 3):
            yield snmp_line(mutate(rng, dg))
        # arbitrary memory behind a short datagram (S): the bound len+6 instead of squid's zeroed slack
        for c in list(tree_cuts(msg))[:: 5 if thorough else 11]:
            e = c.enc()
            if len(e) < 3000:
                yield snmp_line(e, rng.choice([b"\x00\x84\xff\xff\xff\xff", b"\x02\x84", b"\x84\x01\x02\x03\x04", b"\x30\x83\x01\x02\x03", rng.bytes(8), b"\xff" * 8]), general=True)
    # --- datagrams that fill the receive buffer to its last octets: sizes 4089..4095 and longer (cut by recvfrom)
    sizes = [4089, 4090, 4091, 4092, 4093, 4094, 4095, 4096, 4100, 4300]
    nfill = 12 if thorough else 3
    for size in sizes:
        for _ in range(nfill):
            msg = gen_message(rng, nvars=rng.choice([1, 2, 3]), fill=size)
            dg = msg.enc()
            tail = rng.choice([b"", b"\x84\xff\xff\xff\xff", b"\x81\xff", rng.bytes(6)])
            yield snmp_line(dg, tail)
            cuts = list(tree_cuts(msg))
            for c in (cuts if thorough else cuts[-6:]):
                e = c.enc()
                if len(e) >= 4080:
                    yield snmp_line(e, tail)
    # a message ending in a variable binding without a value, stretched to every size near the buffer end
    for size in range(4088, 4097):
        last = Node(0x30, [Node(6, enc_oid(SQUID_OID))])
        for k in range(0, 4200):
            first = Node(0x30, [Node(6, enc_oid(SQUID_OID)), Node(4, b"A" * k, 2)], 2)
            m = Node(0x30, [Node(2, b"\0"), Node(4, b"public"), Node(0xa0, [Node(2, b"\1"), Node(2, b"\0"), Node(2, b"\0"), Node(0x30, [first, last], 2)], 2)], 2)
            if len(m.enc()) == size:
                for tail in ([b"", b"\x84\xff\xff\xff\xff", b"\x7f"] if size >= 4095 else [b""]):
                    yield snmp_line(m.enc(), tail)
                break
    # --- random datagrams
    for _ in range(300 if thorough else 60):
        yield snmp_line(rng.bytes(rng.choice([1, 2, 3, 5, 8, 20, 40, 100])))


def cases(rng, tier):
    yield from cases_snmp(rng.fork("snmp"), tier)


# ------------------------------------------------------------------------------------------------ oracle (the property, not the model)

def parse_out(impl):
    d = {}
    for tok in impl.split(" "):
        if "=" in tok:
            k, v = tok.split("=", 1)
            if k not in d:
                d[k] = v
    return d


def dg_len(line):
    p = line.split(" ")
    n = 0 if p[1] == "-" else len(p[1]) // 2
    if p[0] in ("s", "S"):
        return min(n, SNMP_BUF - 1)
    return n


def oracle(line, impl):
    op = line.split(" ")[0]
    if impl.startswith("abort:"):
        return "sanitizer/abort: " + impl
    if impl.startswith("bad-"):
        return "harness rejected the line: " + impl
    d = parse_out(impl)
    if "asan" in d:
        return "AddressSanitizer report while handling the datagram: %s (over=%s)" % (d["asan"], d.get("over"))
    if op == "s":
        over = int(d.get("over", "0"))
        if dg_len(line) + over > SNMP_BUF:
            return "access %d octet(s) past the %d-octet receive buffer" % (dg_len(line) + over - SNMP_BUF, SNMP_BUF)
    return None


def compare(line, impl, model):
    # the model does not predict sanitizer reports: they are the oracle's business
    return re.sub(r" asan=\S+", "", impl) == model


def classify(line, impl, why):
    p = line.split(" ")
    if p[0] == "s" and dg_len(line) == SNMP_BUF - 1:
        d = parse_out(impl)
        over = int(d.get("over", "0")) if d.get("over", "0").isdigit() else 0
        if impl.startswith("fail ") and 2 <= over <= 6 and ("asan" not in d or d["asan"] == "use-after-poison"):
            return FINDING_SNMP
    return None


def shrink(line):
    p = line.split(" ")
    if len(p) < 2 or p[1] == "-":
        return
    b = unhx(p[1])
    rest = p[2:]
    n = len(b)
    step = max(1, n // 2)
    while step >= 1:
        for off in range(0, n, step):
            c = b[:off] + b[off + step:]
            if c:
                yield " ".join([p[0], hx(c)] + rest)
        step //= 2
    if rest and rest[0] != "-":
        yield " ".join([p[0], p[1], "-"] + rest[1:])


def nontrivial(line, impl, model):
    return impl.startswith("ok ") or (impl.startswith("fail") and "dbg=0" in impl) or (impl.startswith("fail") and "dbg=8" in impl)


def tag(line, impl, model):
    op = line.split(" ")[0]
    d = parse_out(impl)
    if impl.startswith("ok"):
        return "%s ok vars=%s over=%s" % (op, "0" if d.get("vars") == "0" else "1" if d.get("vars") == "1" else "2+", d.get("over"))
    if impl.startswith("fail"):
        return "%s fail dbg=%s over=%s" % (op, d.get("dbg"), d.get("over"))
    return op + " " + impl.split(" ")[0][:24]


def exhaustive(tier):
    return tier == "thorough"


RULE = "s/S: SNMP datagrams (reference BER encoder, structural truncations, buffer-filling sizes, mutations) through snmp_parse"
TRUSTED = []
ASSUMPTIONS = []
MANIFEST = {"text": "partial: (under construction)", "note": "", "technique": "", "engine": "lean+asan"}
