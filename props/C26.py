"""C26 Content-Length is accepted only when unambiguous."""
import os, re, itertools
from vf.util import VERIF, hx, unhx
from vf.harness import ProcHarness

ID = "C26"
PROP_MODULE = "SquidModel.Properties.C26"
MODEL = "c26"
GEN = ["charsets", "header_registry"]
RULE = ("p <flags> <hex block>: HttpHeader::parse on header blocks made of Content-Length fields (digit strings, leading zeros, "
        "INT64 neighbours, signs, whitespace incl. VT/FF, garbage, comma lists with empty/quoted elements), optional "
        "Transfer-Encoding and noise fields, CRLF/LF endings, folds and bare CR in the framing fields; strict and relaxed parser, "
        "request/reply/other owner, trailer/204/1xx rules; exhaustive: all 1- and 2-field blocks over a value alphabet and all value "
        "strings up to length 3 (quick) / 4-5 (thorough) over a 10-symbol alphabet. non-trivial = the block has at least one "
        "Content-Length field and the parser did not reject it for a reason unrelated to Content-Length; distinct = distinct lines")
TRUSTED = ["modelled, not verified: the C++ text of ContentLengthInterpreter / HttpHeader::parse / strListGetItem / strtoll is "
           "transcribed by hand into Lean (SquidModel/Header/ContentLength.lean, Parse.lean); the tie is the differential run",
           "glibc strtoll(…, 10) is modelled from its specification (isspace skip, sign, digits, ERANGE clamp)",
           "the gperf perfect hash of HeaderLookupTable is modelled as a case-insensitive search of the regenerated registry"]
ASSUMPTIONS = ["header blocks are shorter than String::SizeMax_ (196607 bytes), so that joining Transfer-Encoding values cannot throw",
               "C locale (isspace/tolower)"]
MANIFEST = {
    "text": "full: for every header block and both parser modes the model's Content-Length decision is proved sound "
            "(a resulting length n implies every Content-Length value of every field denotes n, one field without comma in strict mode), "
            "complete, and 'otherwise bad framing', for all inputs (full strength since the two defects this check found were repaired in squid: "
            "43aac5c strListGetItem skips VT/FF, 95b4622 checkList rejects a list without members). The real HttpHeader::parse runs under "
            "ASan/UBSan against the model and against an independent python oracle on generated and exhaustively enumerated blocks",
    "note": "trusted: Lean kernel, hand transcription of the C++ into the model, strtoll specification, registry/charset dump programs, "
            "harness and python oracle; former findings C26-list-truncated and C26-empty-list are fixed and kept as regression cases",
    "technique": "Lean 4 proof (induction over the list scanner and the field fold) + registry/charset translators + ASan differential run + direct oracle",
}

UNDER_TEST = ["src/HttpHeader.cc", "src/HttpHeaderTools.cc", "src/StrList.cc", "src/String.cc",
              "src/http/ContentLengthInterpreter.cc", "src/http/RegisteredHeaders.cc"]


def build_exe(stage):
    built = getattr(stage, "built", None)
    if built is None:
        built = stage.built = {}
    if "hdr" in built:
        return built["hdr"]
    objs = [stage.compile(os.path.join(VERIF, "harness", "c26.cc"), extra=["-fno-sanitize=vptr"])] + stage.compile_many(UNDER_TEST)
    exe = stage.link_like("tests/testHttpReply", objs, os.path.join(stage.work, "hdr"),
                          drop=("HttpHeader.o", "HttpHeaderTools.o", "StrList.o", "String.o"))
    built["hdr"] = exe
    return exe


def build(stage):
    return ProcHarness([build_exe(stage)])


# ---------------------------------------------------------------------------------------------- generators
I63 = 2 ** 63
NUMS = [b"0", b"1", b"5", b"7", b"42", b"007", b"00", b"10", b"99", b"100", b"4294967295", b"4294967296", b"4294967297",
        str(I63 - 2).encode(), str(I63 - 1).encode(), str(I63).encode(), str(I63 + 1).encode(), str(2 ** 64 - 1).encode(),
        str(2 ** 64).encode(), str(2 ** 64 + 5).encode(), b"0" * 30 + b"5", b"9" * 18, b"9" * 19, b"9" * 20, b"1" + b"0" * 40,
        b"0" + str(I63 - 1).encode(), b"000" + str(I63).encode()]
GARBAGE = [b"", b"x", b"5x", b"x5", b"5 6", b"5.0", b"0x10", b"5e3", b"+5", b"-5", b"-0", b"+0", b"- 5", b"5;", b"\"5\"", b"5\"", b"\"",
           b"5\"a,b\"", b"\"5,5\"", b"\\", b"5\\", b"\xd9\xa5", b"5\x80", b"\x7f", b"5-", b"--5", b"5\v6", b"5\f", b"\v5", b" 5", b"5\t",
           b"5 ", b"\xff", b"1e", b"0b1", b"5:", b":5", b"5=5", b"(5)"]
WS = [b"", b" ", b"\t", b"  ", b" \t", b"\v", b"\f", b"\v\f", b" \v", b"\f "]
SEPS = [b",", b", ", b" ,", b" , ", b",,", b", ,", b",\t", b",\v,", b",\f,", b", \v ,", b",\v", b",\r", b" ,\t, "]
CLNAMES = [b"Content-Length", b"content-length", b"CONTENT-LENGTH", b"cOnTeNt-LeNgTh", b"Content-length"]
NEARNAMES = [b"Content-Lengt", b"Content-Lengthh", b"Content_Length", b"Content-Length2", b"X-Content-Length", b"ContentLength"]
TEVALS = [b"chunked", b"Chunked", b"gzip", b"gzip, chunked", b"", b"chunked ", b"identity"]
NOISE = [b"Host: example.com", b"X-Foo: bar", b"Accept: */*", b"Connection: close", b"X-Content-Length: 9", b"Cookie: a=1, b=2"]
FLAGS_MAIN = ["sq-", "rq-", "sp-", "rp-"]
FLAGS_ALL = ["sq-", "rq-", "sp-", "rp-", "sh-", "rh-", "sqt", "rqt", "sp4", "rp4", "sp1", "rp1"]


def cl_value(rng, deep=True):
    """one Content-Length field value"""
    k = rng.below(100)
    if k < 40:
        v = rng.choice(NUMS)
    elif k < 50:
        v = str(rng.below(10 ** rng.range(1, 19))).encode()
    elif k < 62:
        v = rng.choice(GARBAGE)
    elif k < 70:
        v = rng.choice(WS) + rng.choice(NUMS) + rng.choice(WS)
    else:   # list
        n = rng.range(1, 4)
        same = rng.chance(2, 3)
        base = rng.choice(NUMS)
        parts = []
        for i in range(n):
            x = base if same else rng.choice(NUMS)
            if rng.chance(1, 8):
                x = rng.choice(GARBAGE)
            if rng.chance(1, 6):
                x = rng.choice(WS) + x + rng.choice(WS)
            parts.append(x)
        v = parts[0]
        for x in parts[1:]:
            v += rng.choice(SEPS) + x
        if rng.chance(1, 5):
            v = rng.choice(SEPS) + v
        if rng.chance(1, 5):
            v = v + rng.choice(SEPS)
    return v


def field(rng, name, value, mess=True):
    colon = b":"
    if mess and rng.chance(1, 12):
        colon = rng.choice([b" :", b"\t:", b" \t:"])
    lead = rng.choice([b" ", b" ", b" ", b"", b"\t", b"  ", b"\v"]) if mess else b" "
    trail = rng.choice([b"", b"", b"", b" ", b"\t", b"\f"]) if mess else b""
    eol = b"\r\n" if (not mess or rng.chance(5, 6)) else b"\n"
    return name + colon + lead + value + trail + eol


def gen_block(rng):
    lines = []
    ncl = rng.choice([1, 1, 1, 2, 2, 3, 4, 0])
    same = rng.chance(1, 2)
    v0 = cl_value(rng)
    for i in range(ncl):
        v = v0 if (same and i > 0 and rng.chance(3, 4)) else (v0 if i == 0 else cl_value(rng))
        name = rng.choice(CLNAMES)
        if rng.chance(1, 25):
            name = rng.choice(NEARNAMES)
        lines.append(field(rng, name, v))
    if rng.chance(1, 6):
        lines.append(field(rng, rng.choice([b"Transfer-Encoding", b"transfer-encoding"]), rng.choice(TEVALS)))
    for _ in range(rng.choice([0, 0, 1, 1, 2])):
        lines.append(rng.choice(NOISE) + b"\r\n")
    rng.shuffle(lines)
    block = b"".join(lines)
    if rng.chance(1, 2):
        block += rng.choice([b"\r\n", b"\n"])
    return block


def mutate(rng, block):
    k = rng.below(9)
    if not block:
        return block
    pos = rng.below(len(block))
    if k == 0:   # fold inside
        i = block.find(b": ")
        return block[:i + 2] + b"\r\n " + block[i + 2:] if i >= 0 else block
    if k == 1:   # bare CR
        return block[:pos] + b"\r" + block[pos:]
    if k == 2:   # NUL
        return block[:pos] + b"\0" + block[pos:]
    if k == 3:   # truncate
        return block[:pos]
    if k == 4:   # byte flip
        return block[:pos] + bytes([block[pos] ^ (1 << rng.below(8))]) + block[pos + 1:]
    if k == 5:   # duplicate a slice
        j = rng.range(pos, min(len(block), pos + 30))
        return block[:j] + block[pos:j] + block[j:]
    if k == 6:   # insert an interesting byte
        return block[:pos] + rng.choice([b",", b"\v", b"\f", b"\"", b" ", b"\t", b"0", b"\n", b":", b"+", b"-"]) + block[pos:]
    if k == 7:   # fold after the value
        i = block.find(b"\r\n")
        return block[:i] + b"\r\n\t5" + block[i:] if i >= 0 else block
    return block[:pos] + block[pos + 1:]


SMALL_VALUES = [b"5", b"05", b"7", b"5,5", b"5, 5", b"5,7", b"x", b"", b",", b"5,", b",5", b"5,\v,7", b"5,\v,5", b"\v5", b"5 5",
                b"-5", b"+5", str(I63 - 1).encode(), str(I63).encode(), b"\"5\"", b"5,\"5\"", b"5,x", b"5;5"]
VALUE_ALPHABET = b"05,7 \v+x\"\t"


def cases(rng, tier):
    thorough = tier == "thorough"
    # exhaustive: all 1- and 2-field (thorough: 3-field over a smaller alphabet) blocks, main modes
    vals = SMALL_VALUES
    for fl in FLAGS_MAIN:
        for v in vals:
            yield "p %s %s" % (fl, hx(b"Content-Length: " + v + b"\r\n"))
        for v, w in itertools.product(vals, vals):
            yield "p %s %s" % (fl, hx(b"Content-Length: " + v + b"\r\ncontent-length: " + w + b"\r\n"))
    if thorough:
        v3 = [b"5", b"05", b"7", b"5,5", b"x", b",", b"5,\v,7", b"", str(I63).encode()]
        for fl in ("sq-", "rq-"):
            for a, b, c in itertools.product(v3, v3, v3):
                yield "p %s %s" % (fl, hx(b"Content-Length: " + a + b"\r\nHost: h\r\nContent-Length: " + b + b"\r\nContent-Length:" + c + b"\r\n\r\n"))
    # exhaustive: every value string up to length L over the alphabet
    L = 5 if thorough else 3
    for n in range(0, L + 1):
        for tup in itertools.product(VALUE_ALPHABET, repeat=n):
            v = bytes(tup)
            for fl in (("rq-", "sq-") if n <= 4 else ("rq-",)):
                yield "p %s %s" % (fl, hx(b"Content-Length:" + v + b"\n"))
    # every value atom alone, all flag combinations
    for fl in FLAGS_ALL:
        for v in NUMS + GARBAGE:
            yield "p %s %s" % (fl, hx(b"Content-Length: " + v + b"\r\n"))
        for te in TEVALS:
            yield "p %s %s" % (fl, hx(b"Content-Length: 5\r\nTransfer-Encoding: " + te + b"\r\n"))
            yield "p %s %s" % (fl, hx(b"Transfer-Encoding: " + te + b"\r\nContent-Length: x\r\n\r\n"))
    # every separator between two equal / different numbers
    for sep in SEPS:
        for fl in FLAGS_MAIN:
            yield "p %s %s" % (fl, hx(b"Content-Length: 5" + sep + b"5\r\n"))
            yield "p %s %s" % (fl, hx(b"Content-Length: 5" + sep + b"7\r\n"))
            yield "p %s %s" % (fl, hx(b"Content-Length: " + sep + b"7\r\n"))
    # random structured + mutations
    nrand = 40000 if thorough else 5000
    for i in range(nrand):
        block = gen_block(rng)
        if rng.chance(1, 5):
            for _ in range(rng.range(1, 2)):
                block = mutate(rng, block)
        fl = rng.choice(FLAGS_MAIN) if rng.chance(4, 5) else rng.choice(FLAGS_ALL)
        yield "p %s %s" % (fl, hx(block))
    # a little fully random
    for i in range(nrand // 20):
        n = rng.range(0, 40)
        block = b"Content-Length:" + rng.bytes(n, b"0123456789, \t\v\f\r\n\"\\+-x:") + b"\r\n"
        yield "p %s %s" % (rng.choice(FLAGS_MAIN), hx(block))


# ---------------------------------------------------------------------------------------------- oracle
ISSPACE = b" \t\n\v\f\r"
TCHAR = set(b"!#$%&'*+-.^_`|~0123456789abcdefghijklmnopqrstuvwxyzABCDEFGHIJKLMNOPQRSTUVWXYZ")
DIGITS = re.compile(rb"[0-9]+\Z")


def field_lines(block):
    """-> (fields, simple): fields = [(name bytes (may have trailing ws), raw value bytes, folded, bare_cr)], in order, for every
    LF-terminated line that has a colon; simple = the block is inside the plain grammar `*(token [ws] ":" value (CRLF|LF)) [CRLF|LF]`."""
    simple = True
    if b"\0" in block:
        simple = False
    parts = block.split(b"\n")
    tail = parts.pop()
    if tail != b"":
        simple = False
    fields = []
    for idx, ln in enumerate(parts):
        body = ln[:-1] if ln.endswith(b"\r") else ln
        if body == b"":
            if idx != len(parts) - 1:
                simple = False
            continue
        if body[:1] in (b" ", b"\t"):
            simple = False
            if fields:
                fields[-1][2] = True
            continue
        bare = b"\r" in body
        if bare:
            simple = False
        if b":" not in body:
            simple = False
            continue
        name, _, value = body.partition(b":")
        fields.append([name, value, False, bare])
    return fields, simple


def cl_reference(block, relaxed):
    """The property, computed from the text of the block only.
    -> (verdict, n, fields): verdict 'none' (no Content-Length field), 'ok' (all values are decimals < 2^63 denoting n; strict: one field,
    no list), 'bad' otherwise."""
    fields, simple = field_lines(block)
    cls = [f for f in fields if f[0].rstrip(ISSPACE).lower() == b"content-length"]
    if not cls:
        return "none", None, fields, simple
    values = []
    bad = False
    for name, raw, folded, bare in cls:
        if folded or bare:
            bad = True
        v = raw.strip(ISSPACE)
        if relaxed and b"," in v:
            # RFC 9110 5.6.1: blank members (nothing but white space, in the isspace() sense the parser uses) are ignored
            items = [x.strip(ISSPACE) for x in v.split(b",") if x.strip(ISSPACE) != b""]
            if not items:
                bad = True   # a list without a single member is not a Content-Length
            values += items
        else:
            values.append(v)
    if not relaxed and len(cls) != 1:
        bad = True
    nums = set()
    for x in values:
        if not DIGITS.match(x) or int(x) >= I63:
            bad = True
        else:
            nums.add(int(x))
    if len(nums) != 1:
        bad = True
    if bad:
        return "bad", None, fields, simple
    return "ok", nums.pop(), fields, simple


def parse_out(impl):
    """-> dict or None"""
    if not impl.startswith("ok "):
        return None
    toks = impl.split(" ")
    d = {}
    ents = []
    for t in toks[1:]:
        if "=" in t and ":" not in t:
            k, v = t.split("=", 1)
            d[k] = v
        else:
            i, n, v = t.split(":")
            ents.append((int(i), unhx(n), unhx(v)))
    d["entries"] = ents
    return d


def name_ok(cfgflags, name):
    """does the entry parser take this raw field name (text before the colon)? -> True/False"""
    relaxed, owner = cfgflags[0] == "r", cfgflags[1]
    core = name.rstrip(ISSPACE)
    if core != name:
        if owner == "q":
            return False
        if not (owner == "p" or relaxed):
            return False
    return len(core) > 0 and all(c in TCHAR for c in core)


def oracle(line, impl):
    op, fl, arg = line.split(" ")
    if impl.startswith("abort:"):
        return "sanitizer/abort: " + impl
    if op != "p":
        return None
    block = unhx(arg)
    relaxed = fl[0] == "r"
    verdict, n, fields, simple = cl_reference(block, relaxed)
    out = parse_out(impl)
    if impl not in ("reject", "throw") and out is None:
        return "unparsable output " + impl[:80]
    te = any(f[0].rstrip(ISSPACE).lower() == b"transfer-encoding" for f in fields)
    prohibited = fl[2] != "-"
    # ---- safety, for every block: a framing length is only ever the one unambiguous value
    if out is not None and out["cl"] != "-":
        if verdict != "ok":
            return "framing length %s taken although the Content-Length fields are %s" % (out["cl"], "absent" if verdict == "none" else "invalid or ambiguous")
        if int(out["cl"]) != n:
            return "framing length %s differs from the field value %d" % (out["cl"], n)
        if te:
            return "Content-Length used although Transfer-Encoding is present"
        if prohibited:
            return "Content-Length used although it is prohibited for this message"
        cls = [e for e in out["entries"] if e[1].lower() == b"content-length"]
        if len(cls) != 1 or not DIGITS.match(cls[0][2]) or int(cls[0][2]) != n:
            return "stored Content-Length entries %r do not carry exactly the value %d" % (cls, n)
    if out is not None and out["cl"] == "-" and any(e[1].lower() == b"content-length" for e in out["entries"]):
        return "a Content-Length entry is stored but not reported"
    # ---- exact outcome for blocks of the plain grammar whose names the entry parser takes
    if not simple or not all(name_ok(fl, f[0]) for f in fields) or any(len(f[1]) > 60000 for f in fields):
        return None
    if impl == "throw":
        return "exception"
    if te or prohibited:
        if out is None:
            if not relaxed and verdict == "bad":
                return None   # strict parser: an invalid Content-Length rejects the message even when it would be ignored
            return "rejected although the block is well-formed"
        return None  # cl == "-" was checked above
    if verdict == "none":
        if out is None or out["bad"] != "0":
            return "no Content-Length field, but the message is rejected or flagged"
        return None
    if verdict == "ok":
        if out is None:
            return "unambiguous Content-Length %d rejected" % n
        if out["cl"] == "-" or out["bad"] != "0":
            return "unambiguous Content-Length %d not used (cl=%s bad=%s)" % (n, out["cl"], out["bad"])
        return None
    # verdict == "bad"
    if not relaxed:
        return None if out is None else "invalid or ambiguous Content-Length accepted by the strict parser"
    if out is None:
        return "relaxed parser rejected the whole block for a bad Content-Length"
    if out["bad"] != "1":
        return "invalid or ambiguous Content-Length is not treated as bad framing (cl=%s bad=%s)" % (out["cl"], out["bad"])
    return None


# ---------------------------------------------------------------------------------------------- findings
# C26-list-truncated and C26-empty-list are fixed in squid (43aac5c, 95b4622); their witnesses stay in corpus/C26 as regression
# cases that must pass, and no failing input is classified as known any more.
def classify(line, impl, why):
    return None


def nontrivial(line, impl, model):
    op, fl, arg = line.split(" ")
    if op != "p":
        return False
    verdict, n, fields, simple = cl_reference(unhx(arg), fl[0] == "r")
    return verdict != "none" and (impl != "reject" or verdict == "bad")


def tag(line, impl, model):
    op, fl, arg = line.split(" ")
    verdict, n, fields, simple = cl_reference(unhx(arg), fl[0] == "r")
    ncl = sum(1 for f in fields if f[0].rstrip(ISSPACE).lower() == b"content-length")
    res = "reject" if impl == "reject" else "throw" if impl == "throw" else "abort" if impl.startswith("abort") else \
        ("ok-bad" if " bad=1" in impl else "ok-nocl" if " cl=- " in impl else "ok-cl")
    return "%s ref=%s ncl=%s %s -> %s" % (fl, verdict, min(ncl, 3), "plain" if simple else "odd", res)


def exhaustive(tier):
    return True


def shrink(line):
    """drop whole lines of the block, then single bytes of short blocks (blocks of at most 24 bytes are left alone)"""
    op, fl, arg = line.split(" ")
    block = unhx(arg)
    if len(block) <= 24:
        return
    parts = block.split(b"\n")
    if len(parts) > 2:
        for i in range(len(parts) - 1):
            yield "%s %s %s" % (op, fl, hx(b"\n".join(parts[:i] + parts[i + 1:])))
    if len(block) <= 48:
        for i in range(len(block)):
            yield "%s %s %s" % (op, fl, hx(block[:i] + block[i + 1:]))
    else:
        step = len(block) // 4
        for off in range(0, len(block), step):
            yield "%s %s %s" % (op, fl, hx(block[:off] + block[off + step:]))
