"""C44 Access lists decide by first match, even when checks go asynchronous."""
import os
from vf.util import VERIF
from vf.harness import ProcHarness

ID = "C44"
PROP_MODULE = "SquidModel.Properties.C44"
MODEL = "c44"
GEN = []
MAX_REPORT = 6          # failing cases that are minimised and reported per run (the rest only counts)
MINIMISE_BUDGET = 150
RULE = ("one line = one configuration (synthetic leaf ACLs, all-of/any-of groups written as acl directives, allow/deny rules; all of it "
        "goes through the real ConfigParser, Acl::Node::ParseNamedAcl, AllOf::parse, AnyOf::parse, InnerNode::lineParse and "
        "aclParseAccessLine) + 1..4 checklists over it (nonBlockingCheck or fastCheck, per-leaf truth value, per-leaf list of lookups "
        "that complete later or inside the starter, banned actions) + a schedule that interleaves the checklists' starts and lookup "
        "completions. Generators: random rule lists per the quantifier text (1..6 rules, 0..4 ACLs, negations, nested groups), "
        "boundary cases (0 rules, rules without ACLs in both construction modes, 5/6/7/8 lookups in a row that complete inside the "
        "starter, fast checks over slow leaves, everything banned, multi-line all-of), exhaustive small scopes (every list of <=2 rules "
        "of <=2 possibly negated ACLs over 2 leaves x every truth assignment x every sync/deferred/immediate mask; every "
        "interleaving of two checklists on small lists), byte-level mutations of valid lines. "
        "non-trivial = at least one checklist answered from a rule list with at least one rule; distinct = distinct lines")
TRUSTED = ["the synthetic leaf ACL (harness/c44.cc SynthLeaf) and its model (leafMatch/leafLoop/starter) are harness code, not squid code: "
           "they follow the calling convention of the real slow ACLs (goAsync(starter) -> return -1; re-evaluated after the resume)",
           "cbdata and ACLFilledChecklist construction are replaced by minimal harness versions (registry with lock counts; no transaction state)",
           "a node object that is used in several places is modelled by copies (the model is a tree, squid's structure a DAG)"]
ASSUMPTIONS = ["the caller of the check stays alive (callerGone() is false)",
               "leaf ACLs have a fixed truth value per checklist and finitely many lookups; a leaf never needs more than 6 lookups in a row "
               "that complete before goAsync() returns (the 7th is refused by the async-loop protection of goAsync: proved and observed)",
               "banned actions do not change while a check is suspended"]
MANIFEST = {
    "text": "full: for every rule list, every assignment of truth values, lookups (any number, completing later or immediately) and banned "
            "actions to any number of checklists, and every interleaving of their starts and lookup completions, each checklist's callback "
            "receives the action of the first non-banned rule whose ACLs all match (negations, all-of/any-of groups, exception leaves), else "
            "the opposite of the last rule's action marked implicit, else DUNNO for an empty list; no modelled assertion fails; every "
            "schedule ends (theorems interleaved_checklists_independent, suspended_is_sound, schedule_terminates, async_eq_sync, "
            "fast_eq_reference, reference_is_first_match, implicit_answer; config_decides_by_first_match ties the parsers' tree to the "
            "configuration text). Hypothesis, shown necessary: no leaf needs 7 lookups in a row that complete inside "
            "goAsync (theorem loop_limit_counterexample). The real code runs the same scenarios under ASan/UBSan; answers, tree shapes and the "
            "global order of leaf evaluations are compared with the model, answers also with an independent first-match evaluator",
    "note": "trusted: Lean kernel, the harness's synthetic leaves / cbdata / checklist construction, python oracle. Modelled, not verified: "
            "node sharing (DAG) is modelled by copying; callerGone, fastCheck(list), lastCheckedName are not modelled",
    "technique": "Lean 4 proof (mutual structural induction over the ACL tree with a resumption specification, invariant over interleaved "
                 "checklists) + ASan/UBSan differential run with exhaustive small scopes",
}

UNDER_TEST = ["src/acl/Checklist.cc", "src/acl/Tree.cc", "src/acl/BoolOps.cc", "src/acl/InnerNode.cc",
              "src/acl/AllOf.cc", "src/acl/AnyOf.cc", "src/acl/Acl.cc", "src/acl/Gadgets.cc"]


def build_exe(stage):
    built = getattr(stage, "built", None)
    if built is None:
        built = stage.built = {}
    if "c44" in built:
        return built["c44"]
    objs = [stage.compile(os.path.join(VERIF, "harness", "c44.cc"), extra=["-fno-sanitize=vptr"])] + stage.compile_many(UNDER_TEST)
    exe = stage.link_like("tests/testACLMaxUserIP", objs, os.path.join(stage.work, "c44"),
                          drop=["tests/stub_cache_cf.o", "tests/stub_debug.o", "tests/stub_cbdata.o"],
                          extra=["acl/.libs/libapi.a", "acl/.libs/libstate.a",
                                 "anyp/.libs/libanyp.a", "sbuf/.libs/libsbuf.a", "base/.libs/libbase.a"])
    built["c44"] = exe
    return exe


def build(stage):
    return ProcHarness([build_exe(stage)], env={"UBSAN_OPTIONS": "print_stacktrace=0:halt_on_error=1:exitcode=86"})


# ------------------------------------------------------------------------------------------------ scenario <-> line
# scenario = dict(mode, nleaves, groups=[(kind, [line,...])], rules=[(act, line)], checks=[dict(kind, banned, leaves=[(val, rounds, styleB)])],
#                 sched=[int])   line = [(neg, isgroup, idx)]

def fmt_line(items):
    return ",".join(("!" if n else "") + ("g%d" % i if g else "%d" % i) for n, g, i in items)


def fmt(sc):
    groups = ";".join("%s=%s" % (k, "|".join(fmt_line(l) for l in lines)) for k, lines in sc["groups"]) or "_"
    rules = ";".join(a + fmt_line(l) for a, l in sc["rules"]) or "_"
    checks = ";".join("%s%s:%s" % (c["kind"], c["banned"], ",".join(v + r + ("!" if b else "") for v, r, b in c["leaves"]))
                      for c in sc["checks"]) or "_"
    sched = ",".join(str(k) for k in sc["sched"]) or "_"
    return "%s %d %s %s %s %s" % (sc["mode"], sc["nleaves"], groups, rules, checks, sched)


class Bad(Exception):
    pass


def _num(s):
    if not s or len(s) > 6 or not s.isdigit() or not s.isascii():
        raise Bad()
    return int(s)


def parse_items(s, nleaves, ngroups):
    if s == "":
        return []
    out = []
    for it in s.split(","):
        neg = it.startswith("!")
        if neg:
            it = it[1:]
        if it.startswith("g"):
            i = _num(it[1:])
            if i >= ngroups:
                raise Bad()
            out.append((neg, True, i))
        else:
            i = _num(it)
            if i >= nleaves:
                raise Bad()
            out.append((neg, False, i))
    return out


def parse(line):
    """-> scenario dict; raises Bad for what the harness calls bad-op"""
    w = [x for x in line.split(" ") if x]
    if len(w) != 6 or w[0] not in ("P", "D"):
        raise Bad()
    nleaves = _num(w[1])
    if nleaves > 64:
        raise Bad()
    groups = []
    if w[2] != "_":
        for g in w[2].split(";"):
            if len(g) < 2 or g[0] not in "ao" or g[1] != "=":
                raise Bad()
            groups.append((g[0], [parse_items(l, nleaves, len(groups)) for l in g[2:].split("|")]))
    rules = []
    if w[3] != "_":
        for r in w[3].split(";"):
            if not r or r[0] not in "+-":
                raise Bad()
            rules.append((r[0], parse_items(r[1:], nleaves, len(groups))))
    checks = []
    if w[4] != "_":
        for c in w[4].split(";"):
            colon = c.find(":")
            if colon < 1 or c[0] not in "nf" or any(ch not in "+-" for ch in c[1:colon]):
                raise Bad()
            rest = c[colon + 1:]
            leaves = []
            if not (rest == "" and nleaves == 0):
                for l in rest.split(","):
                    if not l or l[0] not in "tfxy":
                        raise Bad()
                    k = 1
                    while k < len(l) and l[k] in "di":
                        k += 1
                    style = l[k:] == "!"
                    if l[k:] not in ("", "!"):
                        raise Bad()
                    leaves.append((l[0], l[1:k], style))
            if len(leaves) != nleaves:
                raise Bad()
            checks.append({"kind": c[0], "banned": c[1:colon], "leaves": leaves})
    sched = []
    if w[5] != "_":
        sched = [_num(k) for k in w[5].split(",")]
    return {"mode": w[0], "nleaves": nleaves, "groups": groups, "rules": rules, "checks": checks, "sched": sched}


# ------------------------------------------------------------------------------------------------ the direct oracle
class Stop(Exception):
    def __init__(self, code):
        self.code = code


class OutOfScope(Exception):
    pass


def goasync_calls_ok(rounds):
    """no evaluation of the leaf needs a 7th goAsync() call: 6 lookups completing inside the starter may only be the last ones"""
    run = 0
    for k, r in enumerate(rounds):
        if r == "i":
            run += 1
            if run >= 6 and k + 1 < len(rounds):
                return False
        else:
            run = 0
    return True


def reference(sc, ck):
    """The property, written from its text: the action of the first rule whose ACLs all match (negations applied, all-of = some line has
    all its ACLs matching, any-of = some ACL matches), else the opposite of the last rule's action, else U for an empty list.
    Evaluation is left to right and lazy, which only matters for leaves that end the check with an exception (x, y) and for the scope:
    a leaf that the lazy evaluation visits and whose lookups goAsync() refuses puts the case outside the property's scope."""
    leaves = ck["leaves"]
    fast = ck["kind"] == "f"

    def leaf(i):
        v, rounds, _ = leaves[i]
        if rounds and (fast or not goasync_calls_ok(rounds)):
            raise OutOfScope()
        if v == "t":
            return True
        if v == "f":
            return False
        raise Stop("U" if v == "x" else "R")

    def item(it):
        neg, isg, i = it
        v = group(i) if isg else leaf(i)
        return (not v) if neg else v

    def conj(items):
        for it in items:
            if not item(it):
                return False
        return True

    def group(k):
        kind, lines = sc["groups"][k]
        if kind == "a":
            for l in lines:
                if conj(l):
                    return True
            return False
        for l in lines:
            for it in l:
                if item(it):
                    return True
        return False

    rules = sc["rules"]    # a rule without ACLs matches vacuously ("0..4 ACLs each")
    try:
        for act, items in rules:
            if act in ck["banned"]:
                continue
            if conj(items):
                return ("A" if act == "+" else "D"), len(rules)
    except Stop as e:
        return e.code, len(rules)
    if not rules:
        return "U*", 0
    return ("Di" if rules[-1][0] == "+" else "Ai"), len(rules)


def judge(sc, impl):
    """the oracle on a parsed scenario"""
    parts = impl.split(" ")
    if len(parts) != 4 or not parts[0].startswith("r="):
        return "unparsable output " + impl[:120]
    answers = [] if parts[2] == "_" else parts[2].split(";")
    if len(answers) != len(sc["checks"]):
        return "number of answers differs from the number of checklists"
    for k, (ck, got) in enumerate(zip(sc["checks"], answers)):
        if got in ("", "idle", "paused") or got[0] not in "ADUR":
            return "checklist %d never answered: %s" % (k, got)
        try:
            want, nrules = reference(sc, ck)
        except OutOfScope:
            continue
        if parts[0] != "r=%d" % nrules:
            return "the tree has %s rules, the configuration %d" % (parts[0], nrules)
        if want == "U*":
            if got not in ("U", "Ui"):
                return "checklist %d: empty rule list answered %s, neither-allow-nor-deny expected" % (k, got)
        elif got != want:
            return "checklist %d answered %s, first-match evaluation gives %s" % (k, got, want)
    return None


def has_empty_rule(sc):
    return sc["mode"] == "P" and any(not items for _, items in sc["rules"])


def oracle(line, impl):
    if impl.startswith("abort:") or impl.startswith("harness-inconsistency"):
        return "abort/inconsistency: " + impl[:200]
    try:
        sc = parse(line)
    except Bad:
        return None if impl == "bad-op" else "harness accepted a malformed line: " + impl[:80]
    if impl == "reject:self-destruct" and has_empty_rule(sc):
        return None     # a configuration that squid refuses decides nothing (what the candidate fix C44-empty-rule-skipped does)
    if impl.startswith("reject:") or impl == "bad-op":
        return "harness refused a well-formed scenario: " + impl
    return judge(sc, impl)


def compare(line, impl, model):
    return impl == model


def nontrivial(line, impl, model):
    return impl.startswith("r=") and not impl.startswith("r=0 ") and " _ " not in impl


def tag(line, impl, model):
    if not impl.startswith("r="):
        return impl.split(":")[0][:24]
    try:
        sc = parse(line)
    except Bad:
        return "malformed?"
    parts = impl.split(" ")
    nas = sum(1 for c in sc["checks"] for l in c["leaves"] if l[1])
    pauses = parts[3].count("~") if len(parts) > 3 else 0
    return "%s rules=%s cls=%d %s %s" % (sc["mode"], parts[0][2:] if int(parts[0][2:]) < 3 else "3+", len(sc["checks"]),
                                          "async" if nas else "sync", "paused" if pauses else "straight")


def classify(line, impl, why):
    """C44-empty-rule-skipped: the configuration went through aclParseAccessLine, has an allow/deny line without ACLs, and the answers
    are exactly those of the configuration without these lines (everything else about the case is as the property demands)"""
    try:
        sc = parse(line)
    except Bad:
        return None
    if not has_empty_rule(sc) or not impl.startswith("r="):
        return None
    kept = dict(sc)
    kept["rules"] = [r for r in sc["rules"] if r[1]]
    if judge(kept, impl) is None:
        return "C44-empty-rule-skipped"
    return None


# ------------------------------------------------------------------------------------------------ generators
def rand_items(rng, nleaves, ngroups, maxn=4):
    n = rng.choice([0, 1, 1, 2, 2, 2, 3, 3, 4][:2 * maxn + 1]) if maxn < 4 else rng.choice([0, 1, 1, 2, 2, 2, 3, 3, 4])
    items = []
    for _ in range(n):
        if ngroups and rng.chance(1, 3):
            items.append((rng.chance(1, 3), True, rng.below(ngroups)))
        elif nleaves:
            items.append((rng.chance(1, 3), False, rng.below(nleaves)))
    return items


def rand_rounds(rng, boundary=False):
    if boundary:
        k = rng.below(6)
        if k == 0:
            return "i" * rng.choice([5, 6, 7, 8])
        if k == 1:
            return "i" * rng.choice([5, 6]) + "d" + "i" * rng.choice([0, 5, 6])
        if k == 2:
            return "d" * rng.range(1, 6)
        if k == 3:
            return "di" * 3 + "i" * rng.below(6)
    n = rng.choice([0, 0, 0, 1, 1, 2, 3, 5])
    return "".join(rng.choice("ddi") for _ in range(n))


def rand_check(rng, nleaves, boundary=False, exc=True):
    kind = "f" if rng.chance(1, 8) else "n"
    banned = rng.choice(["", "", "", "", "+", "-", "+-", "-+", "++"]) if rng.chance(1, 4) else ""
    leaves = []
    allsync = kind == "f" and rng.chance(2, 3)
    for _ in range(nleaves):
        v = rng.choice("tf")
        if exc and rng.chance(1, 10):
            v = rng.choice("xy")
        r = "" if allsync else rand_rounds(rng, boundary)
        leaves.append((v, r, rng.chance(1, 3)))
    return {"kind": kind, "banned": banned, "leaves": leaves}


def rand_sched(rng, sc):
    n = sum(len(l[1]) + 1 for c in sc["checks"] for l in c["leaves"]) + len(sc["checks"])
    k = rng.below(4)
    if k == 0:
        return []
    if k == 1:
        return [rng.below(4) for _ in range(rng.range(0, min(n, 40)))]
    return [rng.below(len(sc["checks"]) or 1) for _ in range(min(n, 60))]


def rand_scenario(rng, boundary=False, big=False):
    nleaves = rng.range(1, 6)
    groups = []
    for _ in range(rng.choice([0, 0, 1, 1, 2, 3, 4] if not big else [2, 4, 6])):
        kind = rng.choice("ao")
        lines = [rand_items(rng, nleaves, len(groups), 3) for _ in range(rng.choice([1, 1, 2, 3]))]
        groups.append((kind, lines))
    rules = [(rng.choice("+-"), rand_items(rng, nleaves, len(groups))) for _ in range(rng.range(1, 6))]
    if boundary and rng.chance(1, 4):
        rules = rules[:rng.below(2)]
    sc = {"mode": "D" if rng.chance(1, 4) else "P", "nleaves": nleaves, "groups": groups, "rules": rules, "checks": [], "sched": []}
    sc["checks"] = [rand_check(rng, nleaves, boundary) for _ in range(rng.choice([1, 1, 2, 2, 3, 4]))]
    sc["sched"] = rand_sched(rng, sc)
    return sc


MUT_CHARS = "PD0123456789_;,|=!+-:aognftxydi g"


def mutate(rng, line):
    t = list(line)
    k = rng.below(5)
    if k == 0 and t:
        t[rng.below(len(t))] = rng.choice(MUT_CHARS)
    elif k == 1:
        t.insert(rng.below(len(t) + 1), rng.choice(MUT_CHARS))
    elif k == 2 and t:
        del t[rng.below(len(t))]
    elif k == 3 and t:
        p = rng.below(len(t))
        t = t[:p] + t[p:p + rng.range(1, 4)] + t[p:]
    else:
        p = rng.below(len(t) + 1)
        q = rng.below(len(t) + 1)
        t = t[:min(p, q)] + t[max(p, q):]
    return "".join(t).replace("\n", "")


def small_lines(maxitems):
    """every line of <= maxitems possibly negated ACLs over the leaves 0, 1"""
    base = [(False, False, 0), (True, False, 0), (False, False, 1), (True, False, 1)]
    out = [[]]
    layer = [[]]
    for _ in range(maxitems):
        layer = [l + [b] for l in layer for b in base]
        out += layer
    return out


def exhaustive_small(maxrules, maxitems, modes):
    lines = small_lines(maxitems)
    rules1 = [(a, l) for a in "+-" for l in lines]
    lists = [[]]
    layer = [[]]
    for _ in range(maxrules):
        layer = [rs + [r] for rs in layer for r in rules1]
        lists += layer
    masks = [("", "d", "i")[a] + "" for a in range(3)]
    for rs in lists:
        for m in modes:
            checks = []
            for v0 in "tf":
                for v1 in "tf":
                    for r0 in masks:
                        for r1 in masks:
                            checks.append({"kind": "n", "banned": "", "leaves": [(v0, r0, False), (v1, r1, False)]})
            # 36 checklists per line would hide interleavings; one line per group of 4 (same truth values, different masks)
            for k in range(0, len(checks), 4):
                yield fmt({"mode": m, "nleaves": 2, "groups": [], "rules": rs, "checks": checks[k:k + 4], "sched": []})


def all_schedules(n, length):
    if length == 0:
        yield []
        return
    for k in range(n):
        for rest in all_schedules(n, length - 1):
            yield [k] + rest


def interleavings(rng, count):
    """two or three checklists with different truth values over one list, every schedule of the first steps"""
    for _ in range(count):
        sc = rand_scenario(rng)
        n = rng.choice([2, 2, 3])
        sc["checks"] = [rand_check(rng, sc["nleaves"], exc=False) for _ in range(n)]
        for c in sc["checks"]:
            c["kind"] = "n"
            c["leaves"] = [(v, r if r else rng.choice(["", "d", "dd", "di"]), b) for v, r, b in c["leaves"]]
        for s in all_schedules(n, 4 if n == 2 else 3):
            sc["sched"] = s
            yield fmt(sc)


FIXED = [
    "P 0 _ _ n:;f: _", "D 0 _ _ n:;f: _", "P 1 _ + n:t;f:t _", "D 1 _ + n:t;f:t _", "D 1 _ -;+0 n:t;f:f _", "P 1 _ -;+0 n:f;f:f _",
    "P 1 _ +0 n:tiiiii;n:tiiiiii;n:tiiiiiii;n:tiiiiiii! _", "P 1 _ +0 n:tiiiiiid;n:tiiiiid;n:tdiiiiii;n:tdiiiiiii 3,2,1,0",
    "P 1 _ +0 f:td;f:td!;f:t;f:f _", "P 1 a=|0 +g0;-!g0 n:f;n:td _", "P 2 a=0|1|!0,!1 -g0;+!g0 n:t,f;n:fd,fi;n:f,t 2,1,0,0,1",
    "P 2 o=|0||1 -g0;+!g0 n:t,f;n:fd,fi;n:f,t 2,1,0,0,1", "P 2 _ +0;-1 n+:t,t;n-:t,t;n+-:t,t;f+:t,t;n-:f,f _",
    "P 2 _ -!0,1 n:y,t;n:xd,t;n:td,y;n:fd,yd 0,1,2,3,3,2,1,0", "P 3 o=0,1;a=!g0|2 +g1;-!2 n:t,fd,tdi;n+:f,f,t 0,1,1,0",
    "P 2 a=0;a=g0;a=g1;o=g2,!g2 +g3;-1 n:fd,t;n:td,f 1,0,1,0", "P 2 _ +0,0,0,0;-!0,!0 n:tddd,f;n:fdid,t 1,1,0,0,1,0",
]


def cases(rng, tier):
    thorough = tier == "thorough"
    for l in FIXED:
        yield l
    # exhaustive small scopes
    if thorough:
        yield from exhaustive_small(2, 2, ["P"])
        yield from exhaustive_small(1, 2, ["D"])
    else:
        yield from exhaustive_small(1, 2, ["P", "D"])
        yield from exhaustive_small(2, 1, ["P"])
    yield from interleavings(rng.fork("inter"), 60 if thorough else 8)
    n = 40000 if thorough else 2500
    last = FIXED[0]
    for i in range(n):
        k = rng.below(10)
        if k < 6:
            last = fmt(rand_scenario(rng))
            yield last
        elif k < 8:
            last = fmt(rand_scenario(rng, boundary=True, big=rng.chance(1, 5)))
            yield last
        else:
            yield mutate(rng, last)


def exhaustive(tier):
    return True


# ------------------------------------------------------------------------------------------------ shrinking
def shrink(line):
    try:
        sc = parse(line)
    except Bad:
        for i in range(len(line)):
            yield line[:i] + line[i + 1:]
        return

    def variant(**kw):
        d = dict(sc)
        d.update(kw)
        return fmt(d)
    for i in range(len(sc["checks"])):
        yield variant(checks=sc["checks"][:i] + sc["checks"][i + 1:])
    for i in range(len(sc["rules"])):
        yield variant(rules=sc["rules"][:i] + sc["rules"][i + 1:])
    if sc["sched"]:
        yield variant(sched=[])
        yield variant(sched=sc["sched"][:-1])
        yield variant(sched=sc["sched"][1:])
    for i, (a, items) in enumerate(sc["rules"]):
        for j in range(len(items)):
            yield variant(rules=sc["rules"][:i] + [(a, items[:j] + items[j + 1:])] + sc["rules"][i + 1:])
        for j, (neg, g, idx) in enumerate(items):
            if neg:
                yield variant(rules=sc["rules"][:i] + [(a, items[:j] + [(False, g, idx)] + items[j + 1:])] + sc["rules"][i + 1:])
    for i, (k, lines) in enumerate(sc["groups"]):
        for j in range(len(lines)):
            if len(lines) > 1:
                yield variant(groups=sc["groups"][:i] + [(k, lines[:j] + lines[j + 1:])] + sc["groups"][i + 1:])
            for m in range(len(lines[j])):
                nl = lines[:j] + [lines[j][:m] + lines[j][m + 1:]] + lines[j + 1:]
                yield variant(groups=sc["groups"][:i] + [(k, nl)] + sc["groups"][i + 1:])
    if sc["groups"]:
        last = len(sc["groups"]) - 1
        used = any(g and idx == last for _, items in sc["rules"] for _, g, idx in items)
        if not used:
            yield variant(groups=sc["groups"][:-1])
    for i, c in enumerate(sc["checks"]):
        for j, (v, r, b) in enumerate(c["leaves"]):
            alts = []
            if r:
                alts += [(v, r[:-1], b), (v, r[1:], b), (v, "", b)]
            if b:
                alts.append((v, r, False))
            for alt in alts:
                c2 = dict(c)
                c2["leaves"] = c["leaves"][:j] + [alt] + c["leaves"][j + 1:]
                yield variant(checks=sc["checks"][:i] + [c2] + sc["checks"][i + 1:])
        if c["banned"]:
            c2 = dict(c)
            c2["banned"] = c["banned"][:-1]
            yield variant(checks=sc["checks"][:i] + [c2] + sc["checks"][i + 1:])
    if sc["mode"] == "D":
        yield variant(mode="P")


KNOWN_MUST_MATCH_MODEL = True   # inside a known finding's region the observation must still equal the model's (which reproduces the listed defect); see lib/vf/run.py
