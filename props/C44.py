"""C44 Access lists decide by first match, even when checks go asynchronous."""
import os
from vf.util import VERIF
from vf.harness import ProcHarness

ID = "C44"
PROP_MODULE = "SquidModel.Properties.C44"
MODEL = "c44"
GEN = []

UNDER_TEST = ["src/acl/Checklist.cc", "src/acl/Tree.cc", "src/acl/BoolOps.cc", "src/acl/InnerNode.cc",
              "src/acl/AllOf.cc", "src/acl/AnyOf.cc", "src/acl/Acl.cc", "src/acl/Gadgets.cc"]


def build_exe(stage):
    built = getattr(stage, "built", None)
    if built is None:
        built = stage.built = {}
    if "c44" in built:
        return built["c44"]
    objs = [stage.compile(os.path.join(VERIF, "harness", "c44.cc"), extra=["-fno-sanitize=vptr"])] + stage.compile_many(UNDER_TEST)
    exe = stage.link_like("tests/testACLMaxUserIP", objs, os.path.join(stage.work, "c44"),
                          drop=["tests/stub_cache_cf.o", "tests/stub_debug.o", "tests/stub_cbdata.o"],
                          extra=["acl/.libs/libapi.a", "acl/.libs/libstate.a",
                                 "anyp/.libs/libanyp.a", "sbuf/.libs/libsbuf.a", "base/.libs/libbase.a"])
    built["c44"] = exe
    return exe


def build(stage):
    return ProcHarness([build_exe(stage)], env={"UBSAN_OPTIONS": "print_stacktrace=0:halt_on_error=1:exitcode=86"})
