"""C14 Conditional requests are answered according to their validators (end to end).

A scenario is a history over one URL: the origin's representation versions (ETag field value, Last-Modified) and a list of
steps; each step is one client request (GET/HEAD, If-None-Match fields, If-Match fields, If-Modified-Since) plus what the
origin does *if* Squid contacts it during that step (which version is current, whether it evaluates the conditionals it
receives as RFC 9110 says / fails with 500 / adds a Content-Length to its 304, and whether its reply is fresh or stale).

line:  <versions> <steps>
  versions = v;v;...      v = <etag>/<lm>       etag: n (no ETag header) | hex field value ('-' = empty value); lm: n | seconds before T0
  steps    = s;s;...      s = <m>/<inm>/<im>/<ims>/<k>/<omode>/<fr>
      m G|H (H = HEAD with Cache-Control: only-if-cached, answered from the cache or with 504)   inm,im: n | comma separated hex field values (one header line each)   ims: n | o<sec> (IMF-fixdate) | p<sec> (rfc850)
      | a<sec> (asctime) | x<hex> (raw, not a date)      k: version current at the origin during this step
      omode: r (RFC 9110 evaluation) | e (500) | c<n> (as r, but a 304 carries "Content-Length: n")    fr: f (max-age=100000) | s (max-age=0)
in-process line (harness/c14.cc, the real StoreEntry::hasOneOfEtags / modifiedSince under ASan/UBSan):
  c <etag> <lm> <ts> <method G|H|P> <ranged 0|1> <inm> <im> <ims>   ->   im=<0|1|-> inm=<0|1|-> mod=<0|1|->
observation: one token per step  <status>/<body>/<xv>/<etag>/<lm>/<origin>
      body: - | v<k> | v<k>[n] (first n bytes) | ?<sha>; '!' appended when the message was incomplete
      xv: value of X-V (s<i> = set by the origin reply of step i) or n; etag: hex | n; lm: seconds before T0 | n
      origin: - (not contacted) | <status>:<inm hex list|n>:<im hex list|n>:<ims seconds|now|n|x>   (several contacts joined by '+')
"""
import os, re, threading, time, calendar, hashlib, itertools
from concurrent.futures import ThreadPoolExecutor
from vf.util import hx, unhx, VERIF
from vf.harness import ProcHarness
from e2e import rig

ID = "C14"
PROP_MODULE = "SquidModel.Properties.C14"
MODEL = "c14"
GEN = ["cond_consts"]
RULE = ("scenario = origin versions (ETag strong/weak/malformed/absent, Last-Modified present/absent) x history of client requests "
        "(GET/HEAD x If-None-Match lists/'*'/weak/garbage x If-Match x If-Modified-Since dates around Last-Modified in three date formats) x "
        "per-step origin behaviour (RFC 9110 evaluation, version change, 500, 304 carrying Content-Length) x fresh/stale replies, run through the rebuilt "
        "squid; plus in-process `c` lines (real StoreEntry::hasOneOfEtags / modifiedSince under ASan/UBSan: every list of length <= 3 (quick) / <= 5 (thorough) over "
        "{\" a , SP \\ W / *}, random lists with bytes 1..255, time_t boundaries); non-trivial = a step carrying a conditional header was answered from a cached entry or after revalidation; distinct = distinct scenario lines")
TRUSTED = ["modelled, not verified: Comm I/O, HTTP parsing and packing (tied separately), Time::ParseRfc1123 (C35), refreshCheck (freshness is driven by max-age=0 / max-age=100000 only), "
           "store internals (the entry is a record of header values and a body version)",
           "python reference evaluator of RFC 9110 section 13 (props/C14.py ref_eval) used by the scripted origin and by the oracle"]
ASSUMPTIONS = ["default configuration (memory cache, cache_miss_revalidate on, no collapsed forwarding), one client at a time per URL, GET/HEAD, no Range, no Vary, loopback origin whose Date is the current time"]
MANIFEST = {
    "engine": "e2e",
    "text": "partial: for the decision model read out of processConditional / hasOneOfEtags / strListGetItem / etagParseInit / modifiedSince / processExpired / handleIMSReply / HttpHeader::update, "
            "theorems: a fresh hit is answered 304 only if the RFC 9110 reference evaluation of the request against the cached response says so and on well-formed requests the answer equals the reference "
            "(hit_answer_eq_reference), a failing If-Match on a hit gives 412, a 304 needs the entry's entity-tag (or '*') literally in If-None-Match or no If-None-Match and Last-Modified <= If-Modified-Since; "
            "over histories (any number of steps, any origin version changes) every answer is justified against the response that would otherwise be sent provided the 304s that update the cache carry the stored validator "
            "and the origin answered (history_sound_partial), with machine-checked counterexamples for each excluded region (the three findings); HttpHeader::update replaces exactly the fields named by the 304 and "
            "leaves the stored body alone. The model is tied to the rebuilt binary by scenario correspondence (status, body version, X-V, ETag, Last-Modified and the conditional headers the origin received, per step) "
            "and a direct oracle (python RFC 9110 evaluator + version bookkeeping from the observation alone); the comparison core (hasOneOfEtags over getList, modifiedSince) "
            "is additionally run in-process from the staged store.cc/ETag.cc/StrList.cc under ASan/UBSan against the model and the RFC reference. Runtime behaviour the model cannot exhibit: socket I/O, store swap, timing, concurrency between clients",
    "note": "trusted: Lean kernel, python rig (origin/client stubs), loopback TCP; not modelled: Range/If-Range, Vary, collapsed revalidation, aborted revalidation, negative caching, date parsing",
    "technique": "Lean 4 proofs about the decision model and the history state machine + end-to-end scenario correspondence with the rebuilt squid",
}

KNOWN_MUST_MATCH_MODEL = True   # the model reproduces the three listed defects; a known-region input whose observation differs from the model is reported

MONTHS = ["Jan", "Feb", "Mar", "Apr", "May", "Jun", "Jul", "Aug", "Sep", "Oct", "Nov", "Dec"]
DAYS = ["Mon", "Tue", "Wed", "Thu", "Fri", "Sat", "Sun"]
LONGDAYS = ["Monday", "Tuesday", "Wednesday", "Thursday", "Friday", "Saturday", "Sunday"]
BODY_BASE = 24          # body of version k has BODY_BASE + k bytes (cond_consts translator exports this)
FRESH_CC = "max-age=100000"
STALE_CC = "max-age=0"


def fmt_date(t, kind="o"):
    g = time.gmtime(t)
    if kind == "p":
        return "%s, %02d-%s-%02d %02d:%02d:%02d GMT" % (LONGDAYS[g.tm_wday], g.tm_mday, MONTHS[g.tm_mon - 1], g.tm_year % 100, g.tm_hour, g.tm_min, g.tm_sec)
    if kind == "a":
        return "%s %s %2d %02d:%02d:%02d %d" % (DAYS[g.tm_wday], MONTHS[g.tm_mon - 1], g.tm_mday, g.tm_hour, g.tm_min, g.tm_sec, g.tm_year)
    return "%s, %02d %s %d %02d:%02d:%02d GMT" % (DAYS[g.tm_wday], g.tm_mday, MONTHS[g.tm_mon - 1], g.tm_year, g.tm_hour, g.tm_min, g.tm_sec)


def parse_date(s):
    """the three HTTP date formats, exactly as fmt_date writes them -> epoch seconds or None"""
    s = s.strip()
    t = _parse_date(s)
    if t is None or t <= 0 or s not in (fmt_date(t, "o"), fmt_date(t, "p"), fmt_date(t, "a")):
        return None
    return t


def _parse_date(s):
    m = re.fullmatch(r"(\w{3}), (\d{2}) (\w{3}) (\d{4}) (\d{2}):(\d{2}):(\d{2}) GMT", s)
    if m and m.group(3) in MONTHS:
        return calendar.timegm((int(m.group(4)), MONTHS.index(m.group(3)) + 1, int(m.group(2)), int(m.group(5)), int(m.group(6)), int(m.group(7))))
    m = re.fullmatch(r"(\w+), (\d{2})-(\w{3})-(\d{2}) (\d{2}):(\d{2}):(\d{2}) GMT", s)
    if m and m.group(3) in MONTHS:
        y = int(m.group(4))
        y += 1900 if y >= 70 else 2000
        return calendar.timegm((y, MONTHS.index(m.group(3)) + 1, int(m.group(2)), int(m.group(5)), int(m.group(6)), int(m.group(7))))
    m = re.fullmatch(r"(\w{3}) (\w{3}) ([ \d]\d) (\d{2}):(\d{2}):(\d{2}) (\d{4})", s)
    if m and m.group(2) in MONTHS:
        return calendar.timegm((int(m.group(7)), MONTHS.index(m.group(2)) + 1, int(m.group(3)), int(m.group(4)), int(m.group(5)), int(m.group(6))))
    return None


# ------------------------------------------------------------------------------------------- scenario syntax

class Ver:
    def __init__(self, etag, lm):
        self.etag, self.lm = etag, lm      # bytes | None, int | None


class Step:
    def __init__(self, m, inm, im, ims, k, omode, fr):
        self.m, self.inm, self.im, self.ims, self.k, self.omode, self.fr = m, inm, im, ims, k, omode, fr


def hexlist(tok):
    return None if tok == "n" else [unhx(x) for x in tok.split(",")]


def parse_line(line):
    vt, st = line.split(" ")
    vers, steps = [], []
    for v in vt.split(";"):
        e, l = v.split("/")
        vers.append(Ver(None if e == "n" else unhx(e), None if l == "n" else int(l)))
    for s in st.split(";"):
        m, inm, im, ims, k, omode, fr = s.split("/")
        if m not in "GH" or fr not in "fs" or not re.fullmatch(r"r|e|c\d+", omode) or not re.fullmatch(r"n|[opa]-?\d+|x[0-9a-f-]+", ims):
            raise ValueError(s)
        if int(k) >= len(vers):
            raise ValueError(s)
        steps.append(Step(m, hexlist(inm), hexlist(im), ims, int(k), omode, fr))
    if not vers or not steps or len(steps) > 40:
        raise ValueError(line)
    return vers, steps


def fmt_line(vers, steps):
    vt = ";".join("%s/%s" % ("n" if v.etag is None else hx(v.etag), "n" if v.lm is None else v.lm) for v in vers)
    st = ";".join("/".join([s.m, "n" if s.inm is None else ",".join(hx(x) for x in s.inm), "n" if s.im is None else ",".join(hx(x) for x in s.im),
                            s.ims, str(s.k), s.omode, s.fr]) for s in steps)
    return vt + " " + st


def body_of(sid, k):
    seed = ("%d:v:%s:" % (k, sid)).encode()     # versions differ from the first byte on: a cut body still names its version
    fill = hashlib.sha256(seed).hexdigest().encode()
    return (seed + fill * 4)[:BODY_BASE + k]


# ------------------------------------------------------------------------------------------- RFC 9110 reference

WS = b" \t"


def ref_elements(values):
    """#rule list split: commas outside DQUOTE pairs (entity-tags have no escapes), OWS trimmed, empty elements dropped"""
    s = b",".join(values)
    els, cur, q = [], b"", False
    for ch in s:
        c = bytes([ch])
        if c == b'"':
            q = not q
            cur += c
        elif c == b"," and not q:
            els.append(cur)
            cur = b""
        else:
            cur += c
    els.append(cur)
    return [e.strip(WS) for e in els if e.strip(WS)]


def ref_tag(e):
    """entity-tag = [ "W/" ] DQUOTE *etagc DQUOTE -> (weak, opaque) | '*' | None"""
    if e == b"*":
        return "*"
    m = re.fullmatch(rb'(W/)?"([\x21\x23-\x7e\x80-\xff]*)"', e, re.S)
    return (bool(m.group(1)), m.group(2)) if m else None


def ref_match(values, rep_etag, weak_ok):
    """does the field (list of field values) name the representation? '*' names any current representation"""
    rt = ref_tag(rep_etag.strip(b" \t\r\n\x0b\x0c")) if rep_etag is not None else None
    if rt == "*":
        rt = None
    for e in ref_elements(values):
        t = ref_tag(e)
        if t == "*":
            return True
        if t and rt and t[1] == rt[1] and (weak_ok or (not t[0] and not rt[0])):
            return True
    return False


def ref_eval(inm, im, ims_t, rep_etag, rep_mod):
    """RFC 9110 13.2.2 for GET/HEAD: -> 412 | 304 | 200. ims_t: epoch | None (absent or not a date); rep_mod: modification time | None"""
    if im is not None and not ref_match(im, rep_etag, False):
        return 412
    if inm is not None:
        return 304 if ref_match(inm, rep_etag, True) else 200
    if ims_t is not None and rep_mod is not None and rep_mod <= ims_t:
        return 304
    return 200


def lenient_match(values, rep_etag):
    """any reading of a malformed list (or of a malformed ETag) under which the representation is named; used only to decide
    whether a 304 to a request outside the RFC grammar can be called justified"""
    if any(b"*" in v for v in values):
        return True
    if rep_etag is None:
        return False
    r = rep_etag.strip(b" \t\r\n\x0b\x0c")
    if r.startswith(b"W/"):
        r = r[2:]
    return len(r) >= 2 and any(r in v for v in values)


def etag_shape(v):
    """an ETag field value that can act as a validator: [W/] quoted string -> (weak, quoted) else None"""
    if v is None:
        return None
    v = v.strip(b" \t\r\n\x0b\x0c")
    weak = v.startswith(b"W/")
    q = v[2:] if weak else v
    return (weak, q) if len(q) >= 2 and q[:1] == b'"' and q[-1:] == b'"' else None


def names_other(vers, k, held):
    """a 304 from version k carries an entity-tag, and it is not the one stored with version `held`"""
    return etag_shape(vers[k].etag) is not None and etag_shape(vers[k].etag) != etag_shape(vers[held].etag)


def wellformed(values, rep_etag=b'""'):
    """inside the RFC 9110 grammar (and free of backslashes, which Squid's list splitter treats as escapes)"""
    if rep_etag is not None and ref_tag(rep_etag.strip(b" \t\r\n\x0b\x0c")) in (None, "*"):
        return False
    return values is None or all(ref_tag(e) is not None for e in ref_elements(values)) and all(b"\\" not in v for v in values)


# ------------------------------------------------------------------------------------------- harness

STATE = {"T0": None}
XSP = b" \t\r\n\x0b\x0c"


class Harness:
    def __init__(self, stage):
        self.origin = rig.Origin()
        self.squid = rig.Squid(stage, conf="").start(wait=90)   # a loaded machine may need a while
        self.T0 = int(time.time())
        self.n = 0
        self.lock = threading.Lock()
        self.crashes = 0

    def ims_value(self, tok):
        if tok == "n":
            return None
        if tok[0] == "x":
            return unhx(tok[1:])
        return fmt_date(self.T0 - int(tok[1:]), tok[0]).encode()

    def off(self, datestr):
        """seconds before T0; 'now' for a time during this run (what Squid uses for an entry without Last-Modified)"""
        t = parse_date(datestr)
        if t is None:
            return "x"
        return "now" if -3000 <= self.T0 - t <= 0 else str(self.T0 - t)

    def one(self, line):
        try:
            vers, steps = parse_line(line)
        except (ValueError, IndexError):
            return "bad-op"
        with self.lock:
            self.n += 1
            sid = "c%d" % self.n
        cur = {"i": 0}
        contacts = []

        def handler(req):
            i = cur["i"]
            st = steps[i]
            v = vers[st.k]
            inm = [x.encode("latin-1") for x in rig.hall(req["hdrs"], "if-none-match")] or None
            im = [x.encode("latin-1") for x in rig.hall(req["hdrs"], "if-match")] or None
            imsraw = rig.hget(req["hdrs"], "if-modified-since")
            ims_t = parse_date(imsraw) if imsraw is not None else None
            H = []
            if v.etag is not None:
                H.append(("ETag", v.etag.decode("latin-1")))
            if v.lm is not None:
                H.append(("Last-Modified", fmt_date(self.T0 - v.lm)))
            H += [("Cache-Control", FRESH_CC if st.fr == "f" else STALE_CC), ("X-V", "s%d" % i)]
            body = body_of(sid, st.k)
            if st.omode == "e":
                status, resp = 500, rig.simple_response(500, b"origin-error", [("Cache-Control", "no-store")])
            else:
                status = ref_eval(inm, im, ims_t, v.etag, None if v.lm is None else self.T0 - v.lm)
                if status == 412:
                    resp = rig.simple_response(412, b"precondition", [("Cache-Control", "no-store")], reason="Precondition Failed")
                elif status == 304:
                    extra = [("Content-Length", st.omode[1:])] if st.omode[0] == "c" else []
                    resp = rig.simple_response(304, b"", H + extra, cl=False)
                elif req["first"].startswith("HEAD"):
                    resp = rig.simple_response(200, b"", H + [("Content-Length", str(len(body)))], cl=False)
                else:
                    resp = rig.simple_response(200, body, H)
            contacts.append((i, "%d:%s:%s:%s" % (status, "n" if inm is None else ",".join(hx(x) for x in inm), "n" if im is None else ",".join(hx(x) for x in im),
                                                 "n" if imsraw is None else self.off(imsraw))))
            return [("send", resp)]

        self.origin.on(sid, handler)
        url = self.origin.url(sid, "p")
        out = []
        for i, st in enumerate(steps):
            cur["i"] = i
            method = "GET" if st.m == "G" else "HEAD"
            head = [("%s %s HTTP/1.1" % (method, url)).encode(), b"Host: 127.0.0.1:%d" % self.origin.port]
            head += [b"If-None-Match: " + x for x in (st.inm or [])] + [b"If-Match: " + x for x in (st.im or [])]
            imsv = self.ims_value(st.ims)
            if imsv is not None:
                head.append(b"If-Modified-Since: " + imsv)
            if method == "HEAD":
                head.append(b"Cache-Control: only-if-cached")   # a HEAD step never reaches the origin (and never creates a HEAD entry)
            head += [b"Connection: close", b"", b""]
            try:
                c = rig.Client(self.squid.port)
                c.send(b"\r\n".join(head))
                r = c.response(head_request=(method == "HEAD"))
                c.close()
            except OSError:
                r = None
            if not self.squid.alive():
                return "abort:squid-died " + ";".join(out)
            oc = "+".join(x[1] for x in contacts if x[0] == i) or "-"
            if r is None:
                out.append("noresp/-/n/n/n/" + oc)
                continue
            body = r["body"]
            bt = None
            if r["status"] not in (200, 206, 304):
                bt = "err"
            elif body == b"":
                bt = "-"
            else:
                for k in range(len(vers)):
                    b = body_of(sid, k)
                    if body == b:
                        bt = "v%d" % k
                    elif b.startswith(body):
                        bt = "v%d[%d]" % (k, len(body))
                    if bt:
                        break
            if bt is None:
                bt = "?" + rig.sha(body) if r["status"] in (200, 206, 304) else "err"
            if not r["complete"]:
                bt += "!"
            et = rig.hget(r["hdrs"], "etag")
            lm = rig.hget(r["hdrs"], "last-modified")
            out.append("%d/%s/%s/%s/%s/%s" % (r["status"], bt, rig.hget(r["hdrs"], "x-v", "n"), "n" if et is None else hx(et.encode("latin-1")),
                                              "n" if lm is None else self.off(lm), oc))
        return ";".join(out)

    def run(self, lines):
        with ThreadPoolExecutor(max_workers=8) as ex:
            outs = list(ex.map(self.one, lines))
        # flake guard: an observation the oracle rejects (and no known finding explains) is taken again, twice; it counts only
        # if it fails all three times
        for idx, (l, o) in enumerate(zip(lines, outs)):
            tries = 0
            while tries < 2 and o != "bad-op" and oracle(l, o) and not classify(l, o, oracle(l, o)):
                tries += 1
                o2 = self.one(l)
                if not oracle(l, o2):
                    outs[idx] = o2
                    break
        return outs

    def close(self):
        self.squid.stop()
        self.origin.close()


UNDER_TEST = ["src/store.cc", "src/ETag.cc", "src/StrList.cc"]


def build_exe(stage):
    built = getattr(stage, "built", None)
    if built is None:
        built = stage.built = {}
    if "c14" not in built:
        flags = ["-fno-sanitize=vptr"]
        with ThreadPoolExecutor(max_workers=2) as ex:   # the harness translation unit and the code under test compile side by side
            fh = ex.submit(stage.compile, os.path.join(VERIF, "harness", "c14.cc"), extra=flags + ["-fno-access-control"])
            fo = ex.submit(stage.compile_many, UNDER_TEST, extra=flags)
            objs = [fh.result()] + fo.result()
        built["c14"] = stage.link_like("tests/testRock", objs, os.path.join(stage.work, "c14"), drop=("store.o", "ETag.o", "StrList.o"))
    return built["c14"]


class Both:
    """`c ...` lines go to the in-process harness (real store.cc under ASan/UBSan), scenario lines to the running squid"""

    def __init__(self, stage):
        self.e2e = Harness(stage)
        self.proc = ProcHarness([build_exe(stage)])

    @property
    def crashes(self):
        return self.e2e.crashes + self.proc.crashes

    def run(self, lines):
        ci = [i for i, l in enumerate(lines) if l.startswith("c ")]
        ei = [i for i, l in enumerate(lines) if not l.startswith("c ")]
        out = [None] * len(lines)
        if ci:
            for i, o in zip(ci, self.proc.run([lines[i] for i in ci])):
                out[i] = o
        if ei:
            for i, o in zip(ei, self.e2e.run([lines[i] for i in ei])):
                out[i] = o
        return out

    def close(self):
        self.e2e.close()


def build(stage):
    return Both(stage)


# ------------------------------------------------------------------------------------------- generators

LMBASE = 100000


def gen_versions(rng):
    n = rng.choice([1, 1, 2, 2, 3])
    vers = []
    for k in range(n):
        r = rng.below(12)
        op = rng.choice([b"v%d" % k, b"v%d" % k, b"a,b%d" % k, b"x y%d" % k, b"%d" % k, b"\xe9t%d" % k, b"q%d;z=1" % k])
        if r < 6:
            e = b'"' + op + b'"'
        elif r < 8:
            e = b'W/"' + op + b'"'
        elif r == 8:
            e = None
        elif r == 9:
            e = rng.choice([op, b'"' + op, op + b'"', b"w/\"" + op + b'"', b'"', b"", b'W/', b"*", b'""', b'"a\\"b%d"' % k])
        else:
            e = b'"' + op + b'"'
        lm = None if rng.chance(1, 5) else LMBASE + 1000 * (n - k) + rng.below(3)
        vers.append(Ver(e, lm))
    return vers


def tag_variants(rng, vers, k):
    """field values for an If-(None-)Match relating to version k (and others)"""
    v = vers[k]
    own = v.etag if v.etag is not None else b'"v%d"' % k
    t = ref_tag(own.strip(XSP))
    op = t[1] if t and t != "*" else b"v%d" % k
    strong, weak = b'"' + op + b'"', b'W/"' + op + b'"'
    others = [b'"zz"', b'W/"zz"', b'"' + op + b'x"', b'"' + op[:-1] + b'"', b'"' + op.upper() + b'"', b'""', b'"v9"']
    for j, w in enumerate(vers):
        if j != k and w.etag is not None:
            others.append(w.etag)
    garbage = [op, b'"' + op, op + b'"', b"w/" + strong, b"W/" + op, b'W/"', b'"', b"**", b"* ", b"x*", b"", b",", b", ,", b'"a\\"', b'"x\\""', b"\x0b", b"W/*",
               b"'" + op + b"'", strong + strong, strong + b" " + strong, b'"' + op + b"\\\"\"", strong[:-1] + b"\t\""]
    r = rng.below(16)
    if r < 3:
        return [strong]
    if r < 5:
        return [weak]
    if r == 5:
        return [b"*"]
    if r == 6:
        return [rng.choice(others)]
    if r < 10:   # a list on one line
        items = [rng.choice(others) for _ in range(rng.range(1, 3))]
        if rng.chance(2, 3):
            items.insert(rng.below(len(items) + 1), rng.choice([strong, weak, own]))
        sep = rng.choice([b", ", b",", b" , ", b",\t", b", , ", b" ,, "])
        return [sep.join(items)]
    if r < 12:   # several header lines
        lines = [rng.choice(others + [strong, weak, b"*"]) for _ in range(rng.range(2, 3))]
        return lines
    if r == 12:
        return [own]
    if r == 13:  # garbage alone
        return [rng.choice(garbage)]
    if r == 14:  # garbage next to a real tag
        items = [rng.choice(garbage), rng.choice([strong, weak]), rng.choice(garbage + others)]
        rng.shuffle(items)
        return [b", ".join(items)]
    return [rng.choice([b" " + strong + b" ", b"\t" + weak, strong + b",", b"," + strong, b"*," + rng.choice(others), rng.choice(others) + b", *"])]


def clean(values):
    """header values must survive the wire: no CR/LF/NUL"""
    return [bytes(c for c in v if c not in (0, 10, 13)) for v in values]


def gen_ims(rng, vers, k):
    v = vers[k]
    r = rng.below(14)
    kind = rng.choice(["o", "o", "o", "p", "a"])
    if v.lm is not None and r < 8:
        d = rng.choice([0, 0, 1, -1, 2, -2, 1000, -1000, 3600, -86400])
        return "%s%d" % (kind, v.lm + d)
    if r < 11:
        return "%s%d" % (kind, rng.choice([3600, -3600, 86400, -86400, 50000, LMBASE + 500, LMBASE + 1500, LMBASE + 2500, 10 ** 9]))
    if r == 11:
        return "x" + hx(rng.choice([b"garbage", b"0", b"-1", b"", b"Thu, 01 Jan 1970 00:00:00 GMT", b"Sun, 32 Sep 2026 25:00:00 GMT", b"yesterday", b'"v0"']))
    return "n"


def gen_steps(rng, vers, tier):
    n = rng.range(2, 7) if tier != "thorough" else rng.range(2, 10)
    steps = []
    k = 0
    held = None
    for i in range(n):
        if len(vers) > 1 and i > 0 and rng.chance(1, 4):
            k = rng.below(len(vers))
        r = rng.below(20)
        omode = "r"
        if r == 0:
            omode = "e"
        elif r == 1:
            omode = "c" + str(rng.choice([0, 0, 1, 3, BODY_BASE + k, BODY_BASE + k + 1, 30, 100]))
        fr = "f" if rng.chance(1, 2) else "s"
        m = "H" if rng.chance(1, 10) else "G"
        about = k if held is None or rng.chance(2, 3) else held
        inm = im = None
        ims = "n"
        c = rng.below(12)
        if i == 0 and rng.chance(2, 3):
            c = 11
        if c < 4:
            inm = tag_variants(rng, vers, about)
        elif c < 6:
            ims = gen_ims(rng, vers, about)
        elif c == 6:
            inm = tag_variants(rng, vers, about)
            ims = gen_ims(rng, vers, about)
        elif c < 9:
            im = tag_variants(rng, vers, about)
            if rng.chance(1, 3):
                inm = tag_variants(rng, vers, about)
            if rng.chance(1, 4):
                ims = gen_ims(rng, vers, about)
        elif c == 9:
            ims = gen_ims(rng, vers, about)
            im = tag_variants(rng, vers, about) if rng.chance(1, 3) else None
        if inm is not None:
            inm = clean(inm)
        if im is not None:
            im = clean(im)
        steps.append(Step(m, inm, im, ims, k, omode, fr))
        if m == "G":
            held = k
    return steps


def exhaustive_small(tier):
    """every pair (entry ETag form, request field) from small alphabets against a fresh hit and against a stale entry"""
    etags = [b'"a"', b'W/"a"', None, b"a"]
    fields = [None, [b'"a"'], [b'W/"a"'], [b'"b"'], [b"*"], [b'"b", "a"'], [b'"b"', b'W/"a"'], [b"a"], [b""]]
    imss = ["n", "o%d" % LMBASE, "o%d" % (LMBASE + 1), "o%d" % (LMBASE - 1)]
    lms = [LMBASE, None] if tier == "thorough" else [LMBASE]
    for e in etags:
        for lm in lms:
            for fr in "fs":
                for inm in fields:
                    for im in (fields if tier == "thorough" else [None, [b'"a"'], [b'W/"a"'], [b'"b"'], [b"*"]]):
                        for ims in (imss if (tier == "thorough" or (inm is None and im is None)) else ["n"]):
                            if lm is None and ims != "n":
                                ims = {"o%d" % LMBASE: "o3600", "o%d" % (LMBASE + 1): "o-3600", "o%d" % (LMBASE - 1): "o86400"}[ims]
                            if inm is None and im is None and ims == "n":
                                continue
                            yield fmt_line([Ver(e, lm)], [Step("G", None, None, "n", 0, "r", fr), Step("G", inm, im, ims, 0, "r", "f"), Step("G", None, None, "n", 0, "r", "f")])


def cline(etag, lm, ts, method, ranged, inm, im, ims):
    f = lambda x: "n" if x is None else ",".join(hx(v) for v in x)
    return "c %s %s %d %s %d %s %s %s" % ("n" if etag is None else hx(etag), "n" if lm is None else lm, ts, method, ranged, f(inm), f(im), "n" if ims is None else ims)


SMALL = [0x22, 0x61, 0x2c, 0x20, 0x5c, 0x57, 0x2f, 0x2a]     # " a , SP \ W / *


def c_cases(rng, tier):
    """in-process: exhaustive small lists, random wide-alphabet lists, date boundaries"""
    maxlen = 5 if tier == "thorough" else 3
    for n in range(0, maxlen + 1):
        for t in itertools.product(SMALL, repeat=n):
            yield cline(b'"a"', 100, 200, "G", 0, [bytes(t)], [bytes(t)], None)
    if tier == "thorough":
        for n in range(0, 4):
            for t in itertools.product(SMALL, repeat=n):
                yield cline(b'W/"a"', 100, 200, "G", 0, [bytes(t)], [bytes(t)], None)
                yield cline(bytes(t), 100, 200, "G", 0, [b'"a"', b"*"], [b'W/"a"'], None)
                yield cline(None, 100, 200, "H", 0, [bytes(t)], [bytes(t)], None)
    n = 6000 if tier == "thorough" else 600
    wide = bytes(c for c in range(1, 256) if c not in (10, 13))
    for i in range(n):
        vers = gen_versions(rng)
        k = rng.below(len(vers))
        inm = clean(tag_variants(rng, vers, k)) if rng.chance(3, 4) else None
        im = clean(tag_variants(rng, vers, k)) if rng.chance(1, 2) else None
        if rng.chance(1, 4):     # wide alphabet damage
            fld = inm if inm else im
            if fld:
                j = rng.below(len(fld))
                p = rng.below(len(fld[j]) + 1)
                fld[j] = fld[j][:p] + rng.bytes(rng.range(1, 3), wide) + fld[j][p:]
        etag = vers[k].etag
        if etag is not None:
            etag = clean([etag])[0]
            if rng.chance(1, 10):
                etag = rng.choice([b" ", b"\t"]) + etag + rng.choice([b" ", b"\x0b", b""])
        lm = None if rng.chance(1, 4) else rng.choice([0, 1, 100, 10 ** 9, 2 ** 31 - 1, 2 ** 31, 2 ** 33])
        ts = rng.choice([-1, 0, 50, 200, 10 ** 9])
        base = lm if lm is not None else ts
        ims = None if rng.chance(1, 3) else base + rng.choice([0, 1, -1, 2, -2, 1000, -1000])
        yield cline(etag, lm, ts, rng.choice("GGGHP"), 1 if rng.chance(1, 5) else 0, inm, im, ims)


def cases(rng, tier):
    yield from c_cases(rng.fork("inproc"), tier)
    n = 2500 if tier == "thorough" else 400
    if tier == "thorough":
        yield from exhaustive_small(tier)
    else:
        ex = list(exhaustive_small(tier))
        rng.shuffle(ex)
        yield from ex[:120]
    for i in range(n):
        vers = gen_versions(rng)
        yield fmt_line(vers, gen_steps(rng, vers, tier))
    # mutations: take a valid scenario and damage one request field (byte flip, truncation, duplication, splice)
    for i in range(n // 4):
        vers = gen_versions(rng)
        steps = gen_steps(rng, vers, tier)
        cands = [s for s in steps if s.inm or s.im]
        if not cands:
            continue
        s = rng.choice(cands)
        fld = s.inm if s.inm else s.im
        j = rng.below(len(fld))
        v = fld[j]
        op = rng.below(5)
        if op == 0 and v:
            p = rng.below(len(v))
            v = v[:p] + bytes([v[p] ^ (1 << rng.below(7))]) + v[p + 1:]
        elif op == 1 and v:
            v = v[:rng.below(len(v))]
        elif op == 2:
            v = v + v
        elif op == 3:
            v = v + b"," + rng.choice([b'"v0"', b"*", b'W/"v1"', b'"'])
        else:
            p = rng.below(len(v) + 1)
            v = v[:p] + rng.choice([b'"', b"\\", b",", b" ", b"\t", b"W/", b"*", b"\x0b", b"\xff"]) + v[p:]
        fld[j] = clean([v])[0]
        yield fmt_line(vers, steps)


def exhaustive(tier):
    return True


# ------------------------------------------------------------------------------------------- oracle

def _obs(impl):
    res = []
    for tok in impl.split(";"):
        f = tok.split("/")
        if len(f) != 6:
            return None
        res.append(f)
    return res


def ims_time(tok, T0=0):
    """-> seconds before T0 as a 'time' (larger = earlier); None when absent or not a date"""
    if tok == "n" or tok[0] == "x":
        return None
    return -int(tok[1:])


def judge(line, impl):
    """-> list of (step index, why, facts) for every step whose observation the property does not allow"""
    vers, steps = parse_line(line)
    obs = _obs(impl)
    if obs is None or len(obs) != len(steps):
        return [(-1, "no usable observation: " + impl[:80], {})]
    bad = []
    held = None          # version of the last 200 the origin gave to a GET through this squid
    last_xv = None       # step of the last origin reply that (re)wrote the cached headers
    upd_lm = None        # Last-Modified carried by the last 304 that updated the cached headers
    upd_etag = None      # ETag field carried by such a 304 when it names no other representation
    for i, (st, o) in enumerate(zip(steps, obs)):
        status, body, xv, etag, lm, oc = o
        facts = {"step": i, "omode": st.omode}
        contacts = [] if oc == "-" else oc.split("+")
        # several contacts for one request are not forbidden by the property (a revalidation that cannot be used may be
        # followed by a plain fetch): the last one is the origin's answer to this request
        ostatus = int(contacts[-1].split(":")[0]) if contacts else None
        facts["ostatus"] = ostatus
        if status == "noresp":
            bad.append((i, "no response", facts))
            continue
        status = int(status)
        # the response that would otherwise be sent
        # the response that would otherwise be sent: what the origin just gave (200/412); after a 304 the cached one, unless the
        # 304 names another representation (it carries an entity-tag and that differs from the stored one: then the origin's
        # current version is what a correct answer must be consistent with); else what the cache holds
        if ostatus in (200, 412) or (ostatus == 304 and (held is None or names_other(vers, st.k, held))):
            W = st.k
        else:
            W = held
        facts["W"], facts["held"] = W, held
        if st.m == "H" and ostatus is not None:
            bad.append((i, "only-if-cached request reached the origin", facts))
            continue
        if st.m == "H" and status == 504:
            continue    # only-if-cached and nothing usable in the cache: no response "would otherwise be sent"
        if W is None:
            # nothing cached and no usable origin answer: an error status is all the property allows
            if status in (200, 304):
                bad.append((i, "status %d although the origin gave no representation and nothing was cached" % status, facts))
            continue
        v = vers[W]
        # modification time as a 'seconds before T0' quantity: entries without Last-Modified were received at about T0 (Date = now)
        mod = -v.lm if v.lm is not None else 0
        if ostatus != 200 and W == held:
            # Last-Modified is a header like any other: a 304 (now or earlier) may have rewritten it in the cached response
            eff_lm = vers[st.k].lm if (ostatus == 304 and vers[st.k].lm is not None) else upd_lm
            if eff_lm is not None:
                mod = -eff_lm
        ims_t = ims_time(st.ims)
        ref = ref_eval(st.inm, st.im, ims_t, v.etag, mod)
        facts["ref"] = ref
        wf = wellformed(st.inm, v.etag) and wellformed(st.im, v.etag)
        if ostatus == 412 and status != 412:
            bad.append((i, "origin's 412 became %d" % status, facts))
        elif status == 412:
            if ref != 412 and wf:
                bad.append((i, "412 although If-Match holds for the response that would be sent", facts))
        elif ref == 412 and wf:
            bad.append((i, "If-Match fails for the response that would be sent (version %d) but status is %d" % (W, status), facts))
        elif status == 304:
            ok = ref == 304
            if not ok and not wf:
                # outside the RFC grammar: any reading under which the representation is named counts
                im_ok = st.im is None or ref_match(st.im, v.etag, False) or lenient_match(st.im, v.etag)
                if st.inm is not None:
                    ok = im_ok and (ref_match(st.inm, v.etag, True) or lenient_match(st.inm, v.etag))
                else:
                    ok = im_ok and ims_t is not None and mod <= ims_t
            if not ok:
                bad.append((i, "304 although the validators do not match the response that would be sent (version %d)" % W, facts))
            elif body != "-":
                bad.append((i, "304 with a body", facts))
        elif status == 200:
            if True:
                want_body = "-" if st.m == "H" else "v%d" % W
                want_etag = "n" if v.etag is None else hx(v.etag.strip(XSP))
                want_lm = "n" if v.lm is None else str(v.lm)
                cur_et = vers[st.k].etag if (ostatus == 304 and held is not None and vers[st.k].etag is not None and not names_other(vers, st.k, held)) else upd_etag
                if ostatus != 200 and cur_et is not None:
                    want_etag = hx(cur_et.strip(XSP))   # an ETag field that is no entity-tag is a header like any other
                cur_upd = vers[st.k].lm if (ostatus == 304 and held is not None and vers[st.k].lm is not None) else upd_lm
                if ostatus != 200 and cur_upd is not None:
                    want_lm = str(cur_upd)     # Last-Modified is a header like any other: the last 304 may have rewritten it
                if body != want_body:
                    bad.append((i, "200 whose body is %s, not the unchanged body of version %d" % (body, W), facts))
                elif etag != want_etag or lm != want_lm:
                    bad.append((i, "200 carrying validators etag=%s lm=%s with the body of version %d (its validators: %s %s)" % (etag, lm, W, want_etag, want_lm), facts))
                else:
                    # updated headers: X-V names the last origin reply that wrote the entry
                    want_xv = "s%d" % i if ostatus in (200, 304) else ("s%d" % last_xv if last_xv is not None else None)
                    if want_xv and xv != want_xv:
                        bad.append((i, "200 with X-V %s, expected the updated value %s" % (xv, want_xv), facts))
        elif status == 500 and ostatus == 500:
            pass    # the origin's error passed on (answering from a stale copy instead is optional)
        else:
            bad.append((i, "unexpected status %d" % status, facts))
        # bookkeeping from the observation alone
        if len(contacts) > 1 and ostatus != 200:
            held, last_xv, upd_lm, upd_etag = None, None, None, None   # a revalidation that was not used: the old entry is gone
        elif ostatus == 200:
            held, last_xv, upd_lm, upd_etag = st.k, i, None, None
        elif ostatus == 304 and held is not None:
            last_xv = i
            if vers[st.k].lm is not None:
                upd_lm = vers[st.k].lm
            if vers[st.k].etag is not None and not names_other(vers, st.k, held):
                upd_etag = vers[st.k].etag
    return bad


def parse_c(line):
    w = line.split(" ")
    if len(w) != 9:
        raise ValueError(line)
    f = lambda t: None if t == "n" else [unhx(x) for x in t.split(",")]
    return dict(etag=None if w[1] == "n" else unhx(w[1]), lm=None if w[2] == "n" else int(w[2]), ts=int(w[3]), method=w[4], ranged=w[5] == "1",
                inm=f(w[6]), im=f(w[7]), ims=None if w[8] == "n" else int(w[8]))


def oracle_c(line, impl):
    """the in-process results against the RFC reference (well-formed input) / the literal-presence rule (any input), and
    modifiedSince against plain arithmetic"""
    if impl.startswith("abort"):
        return "no usable observation: " + impl
    if impl in ("bad-op", "reject:header"):
        return None
    c = parse_c(line)
    m = re.fullmatch(r"im=([01-]) inm=([01-]) mod=([01-])", impl)
    if not m:
        return "unparsable result " + impl
    im, inm, mod = m.groups()
    if (im == "-") != (c["im"] is None) or (inm == "-") != (c["inm"] is None) or (mod == "-") != (c["ims"] is None):
        return "presence of a conditional header misjudged"
    weak_ok = (not c["ranged"]) and c["method"] in "GH"
    for name, got, vals, weak in (("If-Match", im, c["im"], False), ("If-None-Match", inm, c["inm"], weak_ok)):
        if vals is None:
            continue
        if wellformed(vals, c["etag"]) or (c["etag"] is None and wellformed(vals)):
            want = ref_match(vals, c["etag"], weak)
            if (got == "1") != want:
                return "%s %s: comparison says %s, RFC 9110 says %s" % (name, "weak" if weak else "strong", got, int(want))
        elif got == "1" and not (ref_match(vals, c["etag"], True) or lenient_match(vals, c["etag"])):
            return "%s matched although the entity-tag is nowhere in the field" % name
    if c["ims"] is not None:
        modt = c["lm"] if c["lm"] is not None else c["ts"]
        want = modt < 0 or modt > c["ims"]
        if (mod == "1") != want:
            return "modifiedSince(%d) = %s with modification time %d" % (c["ims"], mod, modt)
    return None


def oracle(line, impl):
    if line.startswith("c "):
        return oracle_c(line, impl)
    if impl.startswith("abort") or impl == "bad-op":
        return "no usable observation: " + impl if impl.startswith("abort") else None
    bad = judge(line, impl)
    if bad:
        i, why, facts = bad[0]
        return "step %d: %s" % (i, why)
    return None


def compare(line, impl, model):
    return impl == model


def _kinds(line, impl):
    try:
        vers, steps = parse_line(line)
    except Exception:
        return []
    obs = _obs(impl) or []
    res = []
    for st, o in zip(steps, obs):
        cond = ("inm" if st.inm is not None else "") + ("+im" if st.im is not None else "") + ("+ims" if st.ims != "n" else "")
        path = "hit" if o[5] == "-" else "origin" + o[5].split("+")[-1].split(":")[0]
        res.append((cond.strip("+") or "plain", path, o[0]))
    return res


def nontrivial(line, impl, model):
    if line.startswith("c "):
        return "1" in impl or "0" in impl
    return any(c != "plain" and (p == "hit" or p in ("origin304", "origin500")) for c, p, s in _kinds(line, impl))


def tag(line, impl, model):
    if line.startswith("c "):
        return "in-process " + impl
    ks = [k for k in _kinds(line, impl) if k[0] != "plain"]
    if not ks:
        return "no conditional step"
    c, p, s = ks[-1]
    return "%s %s -> %s" % (c, p, s)


# ------------------------------------------------------------------------------------------- findings

def _events(vers, steps, obs, upto):
    """poisoning events still active at step `upto`: (kind, step) with kind 'foreign'"""
    ev = []
    held = None
    for j in range(upto + 1):
        oc = obs[j][5].split("+")[-1]
        if "+" in obs[j][5] and not oc.startswith("200:"):
            held, ev = None, []            # the revalidation was not used and the old entry dropped
        elif oc.startswith("200:") and steps[j].m == "G":
            held, ev = steps[j].k, []      # a fresh copy replaced the entry
        elif oc.startswith("304:") and held is not None:
            if steps[j].k != held and names_other(vers, steps[j].k, held):
                ev.append(("foreign", j))
    return ev


def classify(line, impl, why):
    """narrow signatures of the confirmed defects (see known_findings.d/C14.json)"""
    if line.startswith("c "):
        return None
    try:
        vers, steps = parse_line(line)
        bad = judge(line, impl)
    except Exception:
        return None
    if not bad or bad[0][0] < 0:
        return None
    i, w, facts = bad[0]
    obs = _obs(impl)
    ev = _events(vers, steps, obs, i)
    # (2) the origin's 304 carried an entity-tag other than the stored one (it answered the client's own If-None-Match, or a bare
    #     If-Modified-Since while the representation had changed) and Squid merged it into the stale entry: that entry now pairs
    #     the old body with the new entity-tag; everything served from it afterwards is inconsistent
    if any(k == "foreign" for k, j in ev):
        return "C14-304-foreign-validator"
    # (3) stale entry served after a failed revalidation (origin 5xx) without looking at If-Match
    if "If-Match fails" in w and facts.get("ostatus") == 500 and obs[i][0] == "200":
        return "C14-ifmatch-stale-if-error"
    return None


def shrink(line):
    if line.startswith("c "):
        from vf.run import default_shrink
        yield from default_shrink(line)
        return
    try:
        vers, steps = parse_line(line)
    except Exception:
        return
    # drop a step (not the first), drop a conditional field, simplify origin behaviour
    for j in range(len(steps) - 1, 0, -1):
        yield fmt_line(vers, steps[:j] + steps[j + 1:])
    for j, s in enumerate(steps):
        for attr, val in (("inm", None), ("im", None), ("ims", "n"), ("omode", "r"), ("m", "G")):
            if getattr(s, attr) != val:
                t = Step(s.m, s.inm, s.im, s.ims, s.k, s.omode, s.fr)
                setattr(t, attr, val)
                yield fmt_line(vers, steps[:j] + [t] + steps[j + 1:])
        for attr in ("inm", "im"):
            fld = getattr(s, attr)
            if fld and len(fld) > 1:
                for q in range(len(fld)):
                    t = Step(s.m, s.inm, s.im, s.ims, s.k, s.omode, s.fr)
                    setattr(t, attr, fld[:q] + fld[q + 1:])
                    yield fmt_line(vers, steps[:j] + [t] + steps[j + 1:])
    if len(vers) > 1 and all(s.k < len(vers) - 1 for s in steps):
        yield fmt_line(vers[:-1], steps)
