"""C42 IP-address ACLs match exactly the configured address sets."""
import os, itertools
from vf.util import VERIF
from vf.harness import ProcHarness

ID = "C42"
PROP_MODULE = "SquidModel.Properties.C42"
MODEL = "c42"
GEN = ["ip_acl"]
RULE = ("a <values> <probes>: the value list (all/ipv4/ipv6, IPv4 and IPv6 addresses, CIDR networks, dotted netmasks, ranges, ranges "
        "with a mask) is rendered as squid.conf text, parsed by the real ACLIP::parse through ConfigParser (parseGlobal, "
        "acl_ip_data::FactoryParse, DecodeMask, Acl::SplayInserter<acl_ip_data*>::Merge into the Splay tree) and ACLIP::match is asked "
        "for every probe address in turn (each lookup splays the tree); the harness prints the two switches, the logged events, the "
        "tree shape (addr1.addr2.mask per node) after parse and after the lookups and one bit per probe. k/f lines: the Ip::Address "
        "relational operators, applyMask, turnMaskedBitsOn, cidr called directly. Generators: every ordered pair (thorough: pair "
        "over 4 bits, triple over 3 bits; quick: pair over 3 bits) of singles, aligned CIDR blocks and ranges over the last bits of "
        "an IPv4 and an IPv6 prefix probed with every address of the space and its two neighbours; all permutations of related "
        "4-5 value sets; random lists of up to 40 values clustered around a prefix (duplicates, nesting, partial overlaps, touching "
        "neighbours, both families, keywords) probed with every endpoint, its neighbours, inner and outer addresses and the special "
        "addresses; boundary masks; structural mutations (host bits, reversed ranges, bad masks, dotted masks). "
        "non-trivial = the list was accepted and at least one probe matched and one did not")
TRUSTED = ["modelled, not verified: the pointer manipulation of include/splay.h is modelled on an inductive tree with the two link "
           "chains as lists (SquidModel.Acl.DomainTree, shared with C41; the tree shape after every parse and after every lookup "
           "sequence is compared with the real tree); the 16 address bytes are one big-endian natural number; the byte loops of "
           "Ip::Address::applyMask(cidr)/cidr() are a shift and a leading-ones count",
           "sscanf/getaddrinfo (libc) and ConfigParser::strtokFile are not modelled: the harness renders canonical numeric text "
           "for the four forms a, a/m, a-b, a-b/m and the model starts from the scanned fields",
           "the harness replaces self_destruct() by a C++ throw and reads squid's warnings from its debug stream"]
ASSUMPTIONS = ["values are canonical numeric text (dotted quads without leading zeros, hex groups with at most one '::'); host names and "
               "inet_aton short forms are out of scope", "IPv6 is enabled (Ip::EnableIpv6)",
               "an a-b range has a <= b and, as the property says, values carry no host bits below their mask: other values are "
               "compared with the model only, not judged by the oracle",
               "the five legacy spellings of 'everything' that ACLIP::parseGlobal documents (0.0.0.0/0 ...) are judged as 'all'"]
MANIFEST = {
    "text": "partial: for every list (any length, order, duplicates, nesting, partial overlaps, both families) of all/ipv4/ipv6 and "
            "regular numeric values (address, CIDR network or contiguous dotted netmask, a-b range, a-b/m; proper mask other than /0, "
            "range not reversed) whose end points are tame (0.0.0.0 as a first/last address does not meet an address in "
            "::1..::fffe:ffff:ffff, 255.255.255.255 as a first address does not meet a last address above it), ACLIP::parse ends "
            "normally and after any earlier lookups ACLIP::match(x) is true exactly when x is in the union of the listed sets, for "
            "every probe that does not itself hit those special cases - theorem match_iff_union_partial, no size bound; corollaries: "
            "lists without 0.0.0.0/255.255.255.255 end points (match_iff_union_plain), IPv4-syntax lists for every probe "
            "(match_iff_union_ipv4_lists), order irrelevance, all/ipv4/ipv6 match their families for any list that parses, lookups "
            "never change the stored sequence, FactoryParse masks host bits away (the no-host-bits proviso is not needed). "
            "Excluded and refuted on the real code (counterexample theorems + known findings): the Ip::Address operator special cases "
            "(acl x dst ::1 0.0.0.0 misses ::1; ::1-::5 matches 0.0.0.0; an IPv6 range matches 255.255.255.255), ::/0 matches only ::, "
            "a range ending at ::ffff:0:0 is read as one address, a reversed range makes Merge free a value it could not remove "
            "(heap-use-after-free)",
    "note": "trusted: Lean kernel, the C++ harness (own self_destruct/debug sink, renders the squid.conf text), python oracle; "
            "modelled not verified: pointer code of include/splay.h as an inductive tree (shared model of C41; tree shapes after parse "
            "and after the lookups, logged events and verdicts are compared with the real code on every case), 16 address bytes as one "
            "number, the byte loops of applyMask(cidr)/cidr() as shift/leading-ones count; not modelled: sscanf/getaddrinfo text "
            "scanning, host names, ConfigParser tokenisation; three behaviour flags and the special address constants are regenerated "
            "from the staged tree every run so that the model follows a tree carrying a candidate fix",
    "technique": "Lean 4 proof (interval reading of stored values, splay in-order/monotone-search lemmas, Merge invariant, bit lemmas "
                 "for prefix masks) + constants/behaviour-flag translator + ASan/UBSan differential run with exhaustive small scopes",
}
MAX_REPORT = 10
MINIMISE_BUDGET = 200

V4ANY = 0xffff00000000
V4NO = 0xffffffffffff
ALL1 = (1 << 128) - 1


def build_exe(stage):
    built = getattr(stage, "built", None)
    if built is None:
        built = stage.built = {}
    if "c42" in built:
        return built["c42"]
    objs = [stage.compile(os.path.join(VERIF, "harness", "c42.cc"), extra=["-fno-access-control"]),
            stage.compile("src/acl/Ip.cc"), stage.compile("src/ip/Address.cc"),
            stage.compile("lib/Splay.cc")]
    exe = stage.link_like("tests/testACLMaxUserIP", objs, os.path.join(stage.work, "c42"),
                          drop=["tests/stub_cache_cf.o", "tests/stub_debug.o"],
                          extra=["acl/.libs/libacls.a", "acl/.libs/libapi.a", "acl/.libs/libstate.a", "tests/stub_ACLFilledChecklist.o",
                                 "anyp/.libs/libanyp.a", "sbuf/.libs/libsbuf.a", "base/.libs/libbase.a",
                                 "../lib/.libs/libmisccontainers.a", "../lib/.libs/libmiscencoding.a", "../lib/.libs/libmiscutil.a",
                                 "../compat/.libs/libcompatsquid.a"])
    built["c42"] = exe
    return exe


def dump_env():
    env = dict(os.environ)
    env.update({"LC_ALL": "C", "ASAN_OPTIONS": "detect_leaks=0"})
    return env


def build(stage):
    return ProcHarness([build_exe(stage)], env={"UBSAN_OPTIONS": "print_stacktrace=0:halt_on_error=1:exitcode=86"})


# ---------------------------------------------------------------------------------------------- case lines
# a value is a tuple: ("all",) ("ipv4",) ("ipv6",) or ("v", fam, style, a1, a2|None, mask) with mask None | ("n", int) | ("d", int)

def tok(v):
    if v[0] != "v":
        return v[0]
    _, fam, style, a1, a2, mask = v
    w = 8 if fam == 4 else 32
    m = "-" if mask is None else ("n%d" % mask[1] if mask[0] == "n" else "d%08x" % mask[1])
    return "%d%d:%0*x:%s:%s" % (fam, style, w, a1, "-" if a2 is None else "%0*x" % (w, a2), m)


def untok(t):
    if t in ("all", "ipv4", "ipv6"):
        return (t,)
    f = t.split(":")
    fam, style = int(f[0][0]), int(f[0][1])
    a1 = int(f[1], 16)
    a2 = None if f[2] == "-" else int(f[2], 16)
    mask = None if f[3] == "-" else (f[3][0], int(f[3][1:]) if f[3][0] == "n" else int(f[3][1:], 16))
    return ("v", fam, style, a1, a2, mask)


def mk(values, probes):
    return "a %s %s" % (",".join(tok(v) for v in values) if values else "~",
                        ",".join("%032x" % p for p in probes) if probes else "~")


def parse_line(line):
    w = line.split(" ")
    if w[0] == "a":
        vals = [] if w[1] == "~" else [untok(t) for t in w[1].split(",")]
        probes = [] if w[2] == "~" else [int(t, 16) for t in w[2].split(",")]
        return "a", vals, probes
    if w[0] == "k":
        return "k", w[1], int(w[2], 16), int(w[3], 16)
    return "f", int(w[1], 16), int(w[2], 16)


def V(fam, a1, a2=None, mask=None, style=0):
    return ("v", fam, style if fam == 6 else 0, a1, a2, mask)


def emb(fam, a):
    return V4ANY + a if fam == 4 else a


# ---------------------------------------------------------------------------------------------- the property, directly

LEGACY_ALL = {(0, None, ("n", 0)), (0, None, ("d", 0)), (0, 0xffffffff, None), (0, 0, ("n", 0))}


def denote(v):
    """the address set a configured value denotes, as the property reads it: ('any',) | ('set', lo, hi) over 128-bit numbers
    (IPv4 = ::ffff:a.b.c.d), or None when the value is outside the property's domain (host bits below the mask, a reversed
    range, something that is not a CIDR mask)"""
    if v[0] == "all":
        return ("any",)
    if v[0] == "ipv4":
        return ("set", V4ANY, V4NO)
    if v[0] == "ipv6":
        return ("not4",)
    _, fam, style, a1, a2, mask = v
    if fam == 4 and (a1, a2, mask) in LEGACY_ALL:
        return ("any",)   # documented override: "Using 'all' instead"
    width = 32 if fam == 4 else 128
    if mask is None:
        plen = width
    elif mask[0] == "n":
        if mask[1] > width:
            return None
        plen = mask[1]
    else:
        m = mask[1]
        inv = (~m) & 0xffffffff
        if inv & (inv + 1):
            return None    # not a contiguous netmask
        plen = 32 - inv.bit_length()
    host = (1 << (width - plen)) - 1
    if a1 & host:
        return None
    if a2 is None:
        return ("set", emb(fam, a1), emb(fam, a1 | host))
    if a2 & host or a2 < a1:
        return None
    return ("set", emb(fam, a1), emb(fam, a2 | host))


def member(d, x):
    if d[0] == "any":
        return True
    if d[0] == "not4":
        return not (V4ANY <= x <= V4NO)
    return d[1] <= x <= d[2]


def tree_values(shape):
    """in-order values of a printed tree shape"""
    if shape == "~":
        return []
    out, cur = [], ""
    for ch in shape:
        if ch in "()":
            if cur:
                out.append(cur)
                cur = ""
        else:
            cur += ch
    return out


def oracle(line, impl):
    p = parse_line(line)
    if impl.startswith("abort:"):
        return "sanitizer/abort: " + impl
    if impl.startswith("bad-op"):
        return None
    if p[0] == "k":
        return None
    if p[0] == "f":
        _, a, m = p
        w = impl.split(" ")
        if len(w) != 5:
            return "unparsable output " + impl[:80]
        if int(w[0], 16) != a & m or (w[1] == "1") != ((a & m) != a) or int(w[2], 16) != a | (ALL1 ^ m):
            return "applyMask/turnMaskedBitsOn disagree with bitwise and/or"
        return None
    _, vals, probes = p
    dens = [denote(v) for v in vals]
    if any(d is None for d in dens):
        return None   # outside the property's domain: compared with the model only
    if impl.startswith("reject:"):
        return "a well-formed address list was refused: " + impl
    w = impl.split(" ")
    if len(w) != 6 or w[0] != "ok":
        return "unparsable output " + impl[:80]
    bits = "" if w[4] == "~" else w[4]
    if len(bits) != len(probes):
        return "wrong number of verdicts"
    for x, b in zip(probes, bits):
        e = any(member(d, x) for d in dens)
        if (b == "1") != e:
            return "address %x: match() says %s but %s" % (x, b, "a listed set contains it" if e else "no listed set contains it")
    if tree_values(w[3]) != tree_values(w[5]):
        return "the stored values changed during lookups"
    return None


# ---- classification of known findings (python transcription of the quirky operators; used for classification only) ----

def _is_any(a):
    return a == 0 or a == V4ANY


def _is_no(a):
    return a == ALL1 or a == V4NO


def _endpoints(v):
    """(first, last) of a configured value as squid computes them, None for keywords / refused values"""
    if v[0] != "v":
        return None
    _, fam, style, a1, a2, mask = v
    width = 32 if fam == 4 else 128
    if mask is None:
        plen = width
    elif mask[0] == "n":
        if mask[1] > 128 or (fam == 4 and mask[1] > 32 and mask[1] <= 128):
            return None if mask[1] <= 128 else (emb(fam, a1), emb(fam, a1 if a2 is None else a2))
        plen = mask[1] if mask[1] != 0 else width
    else:
        plen = 0
        for i in range(31, -1, -1):
            if (mask[1] >> i) & 1:
                plen += 1
            else:
                break
        if plen == 0:
            plen = 32
    host = (1 << (width - plen)) - 1
    lo = emb(fam, a1 & ~host)
    b = 0 if a2 is None else emb(fam, a2 & ~host)
    hi = (lo if _is_any(b) else b) | host
    return lo, hi


def range_end_is_anyaddr(v):
    """a-b[/m] whose (masked) second address is ::ffff:0:0 although the first is not: squid reads it as the single value a[/m]"""
    if v[0] != "v" or v[4] is None or denote(v) is None:
        return False
    d = denote(v)
    e = _endpoints(v)
    return d[0] == "set" and e is not None and e[1] != d[2]


def self_incomparable(v):
    e = _endpoints(v)
    if e is None:
        return False
    lo, hi = e
    if (_is_any(hi) and not _is_any(lo)) or hi < lo:
        return True
    if (_is_no(lo) and not _is_no(hi)) or lo > hi:
        return True
    return False


def classify(line, impl, why):
    p = parse_line(line)
    if p[0] != "a":
        return None
    _, vals, probes = p
    if impl.startswith("abort:") and any(self_incomparable(v) for v in vals):
        return "C42-self-incomparable-value-uaf"
    if impl.startswith("abort:") or not why:
        return None
    eps = [e for e in (_endpoints(v) for v in vals) if e]
    if why.startswith("address ") and any(range_end_is_anyaddr(v) for v in vals):
        return "C42-range-end-anyaddr"
    if why.startswith("address "):
        x = int(why.split(" ")[1].rstrip(":"), 16)
        # /0 on an IPv6 value
        if "no listed set" not in why and any(v[0] == "v" and v[1] == 6 and v[5] == ("n", 0) and v[3] == 0 for v in vals) \
                and not any(member(d, x) for d in (denote(v) for v in vals if not (v[0] == "v" and v[5] == ("n", 0) and v[1] == 6))):
            return "C42-v6-slash-zero"
        special = {V4ANY, V4NO}
        # the client address as aclIpAddrNetworkCompare masks it with the mask of some range value (hi - lo of a value with a mask
        # is at least its block size - 1; a block of that size around x is what the mask leaves of x)
        masked = {x}
        for v in vals:
            if v[0] == "v" and v[4] is not None and v[5] is not None and v[5][0] == "n" and 0 < v[5][1] <= (32 if v[1] == 4 else 128):
                hostbits = (32 if v[1] == 4 else 128) - v[5][1]
                masked.add((x >> hostbits) << hostbits)
        if masked & special or any(lo == V4ANY or hi == V4ANY or lo == V4NO for lo, hi in eps):
            return "C42-address-operator-special-cases"
    return None


def compare(line, impl, model):
    if model.startswith("ub:"):
        return True   # the model says the real code has undefined behaviour here: anything goes (the oracle still judges)
    return impl == model


def nontrivial(line, impl, model):
    if not line.startswith("a ") or not impl.startswith("ok "):
        return False
    bits = impl.split(" ")[4]
    return "1" in bits and "0" in bits


def tag(line, impl, model):
    p = parse_line(line)
    if p[0] != "a":
        return p[0]
    if not impl.startswith("ok "):
        return "a " + impl.split(":")[0]
    n = len(p[1])
    size = "0" if n == 0 else "1" if n == 1 else "2-3" if n <= 3 else "4-8" if n <= 8 else "9-40"
    w = impl.split(" ")
    stored = len(tree_values(w[3]))
    dom = "in-domain" if all(denote(v) is not None for v in p[1]) else "out-of-domain"
    return "a values=%s %s %s %s" % (size, "merged" if stored < n else "all-stored", "events" if w[2] != "~" else "no-events", dom)


def shrink(line):
    p = parse_line(line)
    if p[0] != "a":
        return
    _, vals, probes = p
    if len(probes) > 1:
        half = len(probes) // 2
        yield mk(vals, probes[:half])
        yield mk(vals, probes[half:])
        if len(probes) <= 24:
            for i in range(len(probes)):
                yield mk(vals, probes[:i] + probes[i + 1:])
    if len(vals) > 1:
        half = len(vals) // 2
        yield mk(vals[:half], probes)
        yield mk(vals[half:], probes)
        if len(vals) <= 16:
            for i in range(len(vals)):
                yield mk(vals[:i] + vals[i + 1:], probes)


# ---------------------------------------------------------------------------------------------- generators

def scope_values(fam, base, bits, style=0):
    """singles, aligned CIDR blocks and ranges over the last `bits` bits of a prefix"""
    width = 32 if fam == 4 else 128
    n = 1 << bits
    vals = []
    for k in range(bits + 1):            # block of 2^k addresses
        for s in range(0, n, 1 << k):
            if k == 0:
                vals.append(V(fam, base + s, style=style))
            vals.append(V(fam, base + s, None, ("n", width - k), style=style))
    for a in range(n):
        for b in range(a, n):
            vals.append(V(fam, base + a, base + b, style=style))
    return vals


def scope_probes(fam, base, bits):
    n = 1 << bits
    return [emb(fam, base + i) for i in range(-1, n + 1)]


SCOPES = [(4, 0x0a010200), (6, 0x20010db8000000000000000000000100)]


def small_scope(fam, base, bits, k, rng=None, sample=None):
    vals = scope_values(fam, base, bits, style=1)
    probes = scope_probes(fam, base, bits)
    if sample is None:
        for lst in itertools.product(vals, repeat=k):
            yield mk(list(lst), probes)
    else:
        for _ in range(sample):
            yield mk([rng.choice(vals) for _ in range(k)], probes)


def rand_block(rng, fam, base, spread):
    """an aligned block near base"""
    width = 32 if fam == 4 else 128
    k = rng.choice([0, 0, 1, 2, 3, 4, 8, rng.range(0, min(spread + 4, width - 1))])
    a = (base + rng.below(1 << spread)) & ((1 << width) - 1)
    a &= ~((1 << k) - 1)
    return a, k


def cluster_values(rng, n):
    fam = rng.choice([4, 4, 6])
    width = 32 if fam == 4 else 128
    if fam == 4:
        base = rng.choice([0x0a000000, 0xc0a80000, 0x7f000000, 0x00000000, 0xffffff00, 0xe0000000, rng.below(1 << 32)])
    else:
        base = rng.choice([0x20010db8 << 96, 0xfe80 << 112, 0, 1 << 127, ALL1 - 0xffff, V4ANY - 0x100, V4ANY, rng.below(1 << 128)])
    spread = rng.choice([3, 4, 6, 8, 12, 16])
    base &= ~((1 << spread) - 1)
    vals = []
    for _ in range(n):
        kind = rng.below(12)
        style = rng.below(3)
        if vals and kind == 0:
            vals.append(rng.choice(vals))                          # duplicate
        elif kind <= 4:
            a, k = rand_block(rng, fam, base, spread)
            if k == 0 and rng.chance(1, 2):
                vals.append(V(fam, a, style=style))
            elif fam == 4 and rng.chance(1, 6):
                vals.append(V(fam, a, None, ("d", (0xffffffff << k) & 0xffffffff)))
            else:
                vals.append(V(fam, a, None, ("n", width - k), style=style))
        elif kind <= 8:
            a = (base + rng.below(1 << spread)) & ((1 << width) - 1)
            b = min(a + rng.choice([0, 1, 2, 5, rng.below(1 << spread)]), (1 << width) - 1)
            vals.append(V(fam, a, b, style=style))
        elif kind == 9:
            a, k = rand_block(rng, fam, base, spread)               # range with a mask
            b = min(a + (rng.below(4) << k), (1 << width) - 1) & ~((1 << k) - 1)
            vals.append(V(fam, a, b, ("n", width - k), style=style))
        elif kind == 10 and vals:                                   # touching neighbour of an earlier value
            v = rng.choice(vals)
            d = denote(v)
            if d and d[0] == "set" and v[0] == "v" and v[1] == fam:
                off = V4ANY if fam == 4 else 0
                hi = d[2] - off
                if hi + 1 < (1 << width):
                    vals.append(V(fam, hi + 1, min(hi + 1 + rng.below(4), (1 << width) - 1), style=style))
                    continue
            vals.append(V(fam, base))
        else:
            other = 6 if fam == 4 else 4
            vals.append(V(other, rng.below(1 << (32 if other == 4 else 128)), style=style))
    if rng.chance(1, 12):
        vals.insert(rng.below(len(vals) + 1), (rng.choice(["all", "ipv4", "ipv6"]),))
    return vals


SPECIAL = [0, 1, V4ANY - 1, V4ANY, V4ANY + 1, V4NO - 1, V4NO, V4NO + 1, ALL1 - 1, ALL1, 1 << 127]


def derived_probes(rng, vals, extra=6, special=True):
    ps = []
    for v in vals:
        d = denote(v)
        if d and d[0] == "set":
            lo, hi = d[1], d[2]
            for x in (lo - 1, lo, lo + 1, hi - 1, hi, hi + 1, lo + rng.below(hi - lo + 1)):
                if 0 <= x <= ALL1:
                    ps.append(x)
        elif v[0] == "v":
            ps += [emb(v[1], v[3])] + ([emb(v[1], v[4])] if v[4] is not None else [])
    for _ in range(extra):
        ps.append(rng.choice([rng.below(1 << 128), V4ANY + rng.below(1 << 32)]))
    if special:
        ps += [rng.choice(SPECIAL) for _ in range(2)]
    rng.shuffle(ps)
    return ps[:60]


def avoids_known(vals, probes):
    """generator aid: keep the bulk of the random stream out of the known-finding regions (they get their own capped streams)"""
    for v in vals:
        if v[0] == "v":
            if v[5] == ("n", 0) and v[1] == 6:
                return False
            e = _endpoints(v)
            if e and (e[0] in (V4ANY, V4NO) or e[1] == V4ANY or self_incomparable(v) or range_end_is_anyaddr(v)):
                return False
    return not any(p in (V4ANY, V4NO) for p in probes)


def mutate(rng, vals):
    vals = list(vals)
    i = rng.below(len(vals))
    v = vals[i]
    if v[0] != "v":
        return vals
    _, fam, style, a1, a2, mask = v
    width = 32 if fam == 4 else 128
    k = rng.below(7)
    if k == 0 and a2 is not None and a2 != a1:
        v = V(fam, a2, a1, mask, style)                               # reversed range
    elif k == 1:
        v = V(fam, a1 | rng.choice([1, 2, 0x80, 0xff]), a2, mask if mask else ("n", width - 8), style)   # host bits
    elif k == 2:
        v = V(fam, a1, a2, ("n", rng.choice([0, 1, 31, 32, 33, 64, 127, 128, 129, 255, 999])), style)     # boundary / bad mask
    elif k == 3 and fam == 4:
        v = V(fam, a1, a2, ("d", rng.choice([0, 0xff000000, 0xffffff00, 0xffffffff, 0xff00ff00, 0x00ffffff, rng.below(1 << 32)])))
    elif k == 4:
        vals.insert(rng.below(len(vals) + 1), v)                      # duplicate elsewhere
    elif k == 5:
        v = V(fam, a1, a1, mask, style)                               # a-a
    else:
        v = V(fam, a1 ^ (1 << rng.below(width)), a2, mask, style)     # bit flip in addr1
    vals[i] = v
    return vals


BOUNDARY = [
    [V(4, 0x7f000000, None, ("n", 8)), V(4, 0, None, ("n", 32)), V(6, 1, None, ("n", 128)), V(6, 0, None, ("n", 128))],   # to_localhost
    [V(4, 0x0a000000, None, ("n", 8)), V(4, 0xac100000, None, ("n", 12)), V(4, 0xc0a80000, None, ("n", 16)),
     V(6, 0xfc00 << 112, None, ("n", 7)), V(6, 0xfe80 << 112, None, ("n", 10))],                                          # localnet
    [V(4, 0, None, ("n", 0))], [V(4, 0, None, ("d", 0))], [V(4, 0, 0xffffffff)], [V(4, 0, 0, ("n", 0))],
    [V(4, 0, None, ("n", 1)), V(4, 0x80000000, None, ("n", 1))],
    [V(6, 0, None, ("n", 1)), V(6, 1 << 127, None, ("n", 1))],
    [V(4, 0xffffffff), V(4, 0xfffffffe)], [V(4, 0xe0000000, None, ("n", 3))], [V(4, 0xf0000000, None, ("n", 4))],
    [V(6, ALL1), V(6, ALL1 - 1)], [V(6, ALL1 - 0xffff, None, ("n", 112))],
    [V(4, 1), V(4, 2), V(4, 3)], [V(6, 2), V(6, 3, 9)],
    [V(6, V4ANY + 0x0a000001), V(4, 0x0a000001)],                                       # the same address in both syntaxes
    [V(6, V4ANY + 0x0a000000, None, ("n", 104)), V(4, 0x0a000000, None, ("n", 8))],     # the same network in both syntaxes
    [V(4, 0x0a000000, None, ("d", 0xff000000)), V(4, 0x0a000000, None, ("n", 8))],
    [("all",)], [("ipv4",)], [("ipv6",)], [("ipv4",), ("ipv6",)], [("ipv6",), V(4, 0x0a000000, None, ("n", 8))],
    [("ipv4",), V(6, 0x20010db8 << 96, None, ("n", 32))], [("ipv4",), V(4, 0x0a000000, None, ("n", 8))], [],
]

KNOWN_REGION = [
    # C42-address-operator-special-cases
    ([V(6, 1), V(4, 0)], [1, V4ANY, 2]),
    ([V(4, 0), V(6, 1)], [1, V4ANY, 2]),
    ([V(6, 1, 5)], [V4ANY, 3, 6]),
    ([V(6, 0x20010db8 << 96, (0x20010db8 << 96) + 255)], [V4NO, (0x20010db8 << 96) + 7]),
    ([V(6, 7), V(6, 3), V(4, 0), V(6, 5)], [3, 5, 7, V4ANY, 4]),
    # C42-v6-slash-zero
    ([V(6, 0, None, ("n", 0))], [0, 1, V4ANY + 5, ALL1]),
    # C42-range-end-anyaddr
    ([V(6, V4ANY - 0x100, V4ANY, ("n", 120))], [V4ANY + 0xff, V4ANY - 1, V4ANY - 0x101]),
    ([V(6, 5, V4ANY)], [5, 6, V4ANY]),
    # C42-self-incomparable-value-uaf (sanitizer abort: keep these few)
    ([V(4, 0x0a000005, 0x0a000003), V(4, 0x0a000001, 0x0a000009)], [V4ANY + 0x0a000004]),
]


def cases(rng, tier):
    thorough = tier == "thorough"
    # ---- boundary lists, in all rotations, probed at every endpoint
    for vals in BOUNDARY:
        for r in range(max(1, len(vals))):
            lst = vals[r:] + vals[:r]
            yield mk(lst, sorted(set(derived_probes(rng, lst, extra=3, special=False) + SPECIAL[:3] + [V4ANY + 0x0a000001, (0x20010db8 << 96) + 1])))
    # ---- exhaustive small scopes
    for fam, base in SCOPES:
        if thorough:
            yield from small_scope(fam, base, 4, 1)
            yield from small_scope(fam, base, 4, 2)
            if fam == 4:
                yield from small_scope(fam, base, 3, 3)
            else:
                yield from small_scope(fam, base, 3, 3, rng, 20000)
        else:
            yield from small_scope(fam, base, 3, 1)
            yield from small_scope(fam, base, 3, 2)
            yield from small_scope(fam, base, 4, 2, rng, 600)
            yield from small_scope(fam, base, 3, 3, rng, 600)
    # mixed families, sampled
    v4s = scope_values(4, SCOPES[0][1], 3)
    v6s = scope_values(6, SCOPES[1][1], 3, style=1)
    pr = scope_probes(4, SCOPES[0][1], 3) + scope_probes(6, SCOPES[1][1], 3)
    for _ in range(4000 if thorough else 300):
        n = rng.range(2, 6)
        yield mk([rng.choice(v4s if rng.chance(1, 2) else v6s) for _ in range(n)], pr)
    # ---- all permutations of related value sets
    nperm = 40 if thorough else 6
    for _ in range(nperm):
        fam, base = rng.choice(SCOPES)
        pool = scope_values(fam, base, 4, style=1)
        vals = [rng.choice(pool) for _ in range(rng.choice([4, 4, 5]))]
        probes = scope_probes(fam, base, 4)
        for perm in itertools.permutations(vals):
            yield mk(list(perm), probes)
    # ---- random clustered lists
    nrand = 12000 if thorough else 1200
    made = 0
    while made < nrand:
        n = rng.choice([1, 2, 3, 3, 4, 6, 8, 12, 20, 40])
        vals = cluster_values(rng, n)
        probes = derived_probes(rng, vals)
        if not avoids_known(vals, probes):
            vals = [v for v in vals if avoids_known([v], [])]
            probes = [p for p in probes if p not in (V4ANY, V4NO)]
        made += 1
        yield mk(vals, probes)
        if made % 3 == 0 and vals:
            mv = mutate(rng, vals)
            if not any(self_incomparable(v) for v in mv) and avoids_known(mv, []):
                yield mk(mv, [p for p in derived_probes(rng, mv) if p not in (V4ANY, V4NO)])
    # ---- operators and mask primitives
    pts = SPECIAL + [V4ANY + 0x0a000001, (0x20010db8 << 96) + 1, 2, 0xffff, 1 << 64]
    for op in ("lt", "le", "gt", "ge", "eq", "cmp"):
        for a in pts:
            for b in pts:
                yield "k %s %032x %032x" % (op, a, b)
    for _ in range(2000 if thorough else 200):
        a = rng.choice([rng.below(1 << 128), V4ANY + rng.below(1 << 32), rng.choice(SPECIAL)])
        k = rng.range(0, 128)
        m = rng.choice([ALL1 - ((1 << k) - 1), ALL1, 0, rng.below(1 << 128), V4NO])
        yield "f %032x %032x" % (a, m)
    # ---- the known-finding regions last, few
    for vals, probes in KNOWN_REGION:
        yield mk(vals, probes)
    nk = 40 if thorough else 12
    for _ in range(nk):
        n = rng.choice([2, 3, 4, 6])
        lows = [V(6, rng.range(1, 9)) for _ in range(n)] + [V(6, rng.range(1, 5), rng.range(5, 9))]
        vals = [rng.choice(lows) for _ in range(n)] + [V(4, 0)]
        rng.shuffle(vals)
        yield mk(vals, [V4ANY] + list(range(0, 11)))
    for _ in range(nk):
        vals = cluster_values(rng, rng.choice([2, 3, 5]))
        vals = [v for v in vals if not self_incomparable(v)]
        yield mk(vals, derived_probes(rng, vals) + [V4ANY, V4NO])


def exhaustive(tier):
    return True   # every ordered pair (thorough: over 4 bits, plus every IPv4 triple over 3 bits) of singles/blocks/ranges of an IPv4 and an IPv6 prefix


KNOWN_MUST_MATCH_MODEL = True   # inside a known finding's region the observation must still equal the model's (which reproduces the listed defect); see lib/vf/run.py
