"""C57 Rock rebuild indexes only intact entries from any disk image."""
import os
from vf.util import VERIF
from vf.harness import ProcHarness

ID = "C57"
PROP_MODULE = "SquidModel.Properties.C57"
MODEL = "c57"
GEN = ["rock_rebuild"]

# code under test, compiled from the stage with ASan/UBSan and placed before the tree's own (unsanitised) objects;
# src/fs/rock/RockRebuild.cc itself is #included by harness/c57.cc
UNDER_TEST = ["src/store_rebuild.cc", "src/ipc/StoreMap.cc", "src/ipc/mem/PageStack.cc", "src/store/SwapMetaIn.cc",
              "src/store/SwapMetaView.cc", "src/fs/rock/RockDbCell.cc"]


def build_exe(stage):
    built = getattr(stage, "built", None)
    if built is None:
        built = stage.built = {}
    if "c57" not in built:
        from concurrent.futures import ThreadPoolExecutor
        flags = ["-fno-sanitize=vptr"]
        with ThreadPoolExecutor(max_workers=2) as ex:
            fh = ex.submit(stage.compile, os.path.join(VERIF, "harness", "c57.cc"), extra=flags + ["-fno-access-control"])
            fo = ex.submit(stage.compile_many, UNDER_TEST, extra=flags)
            objs = [fh.result()] + fo.result()
        built["c57"] = stage.link_like("tests/testRock", objs, os.path.join(stage.work, "c57"),
                                       drop=("tests/stub_store_rebuild.o",),
                                       extra=["tests/stub_store_digest.o"] if os.path.exists(stage.path("src/tests/stub_store_digest.o")) else [])
    return built["c57"]


def build(stage):
    return ProcHarness([build_exe(stage)])
