"""C57 Rock rebuild indexes only intact entries from any disk image."""
import os, re, itertools
from vf.util import VERIF
from vf.harness import ProcHarness

ID = "C57"
PROP_MODULE = "SquidModel.Properties.C57"
MODEL = "c57"
GEN = ["rock_rebuild"]
MINIMISE_BUDGET = 200
MAX_REPORT = 8

RULE = ("r <N> <slotSize> <S> <slot>*N: one rock db image per line (cell headers + swap metadata class per slot, `z` = zeroed slot, "
        "`t` = file truncated here); the harness writes the db file and runs the real Rock::Rebuild to completion, the dump lists every "
        "anchor, slice, LoadingSlot flag, the free-slot stack and the counters. Streams: valid multi-slot entries in scrambled slot "
        "order; crash points (chains cut after j slots over stale/empty slots); mutations of every header field, links, keys, "
        "versions, metadata classes, duplicates, zeroed and truncated slots; random cells; exhaustive small images (thorough). "
        "non-trivial = at least one entry became readable or was rejected after being partially loaded; distinct = distinct lines")
TRUSTED = ["the swap metadata parser Store::UnpackIndexSwapMeta enters the model through its result (zeroed / unparsable / parsed key, "
           "swap_file_sz, flags, swap_hdr_sz); the harness serialises metadata of exactly these classes and the real parser runs on them",
           "Ipc::ReadWriteLock is modelled as the writing bit (no readers exist while a single process rebuilds); StoreMap::fileNos relocation "
           "(used by updaters only) is the identity",
           "the harness drives the Rock::Rebuild job (start() + steps() until doneLoading && doneValidating) in foreground mode instead of the "
           "event loop and turns squid's assert()/uncaught job exceptions into a `crash:` result instead of abort()",
           "disk read errors (FD_READ_METHOD < 0) and lseek failures are not generated"]
ASSUMPTIONS = ["the map is empty and nobody else stores entries while the rebuild runs (squid -F / single process); resuming a rebuild interrupted "
               "by a kid crash (Rebuild::Stats in shared memory) is not covered",
               "slot count below 2^31 and payload sums below 2^64 (sizes are unbounded naturals in the model)"]
MANIFEST = {
    "text": "partial: the statement is false of the pinned source (three confirmed defects); proved for every db image (any list of raw slots, "
            "any metadata parser results, any length) and all eight source variants: rebuild_terminates; rebuild_crash_classes (a dying "
            "rebuild dies in one of exactly four ways -- the two all-ones size assertions, a slot pushed on the free stack twice, an "
            "unprocessed slot under squid -S -- every other assert/uncaught Must of the modelled code is unreachable); "
            "readable_entries_intact (every readable entry has a non-empty, acyclic slice chain inside the db ending with -1 whose sizes "
            "add up to swap_file_sz, or to less in the variant without the size check); readable_size_exact; readable_chains_disjoint; "
            "readable_chain_matches_disk; under the explicit hypothesis Own (owner check in finalizeOrThrow, or no nextSlot of the image "
            "leaves its entry position): readable_chain_own_slots_partial (chain slots are cells of that entry, not freed, not on the free "
            "stack) and no_stolen_slot_crash_partial; no_all_ones_crash_fixed; and for the source with the three candidate repairs the "
            "statement at FULL strength for every image: repaired_rebuild_never_crashes, repaired_source_satisfies_property. "
            "Counterexample theorems for the pinned source (each replayed on the real Rock::Rebuild, corpus/C57): "
            "short_entry_counterexample, stolen_slot_counterexample, unprocessed_slot_crash, double_free_crash, "
            "all_ones_entry_size_crash, all_ones_swap_file_sz_crash.",
    "note": "trusted: Lean kernel, translator (constants printed by the staged harness, three source-shape flags by regex), C++ harness that "
            "serialises images, drives the real job and dumps the real map, python oracle. Modelled not verified: Store::UnpackIndexSwapMeta "
            "(enters as its result), Ipc::ReadWriteLock (writing bit). Not modelled: rebuild resumption after a kid crash, concurrent "
            "traffic during rebuild (the leIgnored branch is modelled and proved unreachable from an empty map), read errors, uint64 "
            "wrap-around of payload sums (impossible below 2^31 slots)",
    "technique": "Lean 4 inductive invariant over the slot-by-slot loading loop (function-valued state, chain predicates with frame lemmas, "
                 "pigeonhole fuel bound, crash-class-indexed Hoare predicate, subset-sum argument for squid -S) + source-variant flags + "
                 "full-state differential run of the real Rock::Rebuild on synthesised db files under ASan/UBSan + direct oracle",
}

# code under test, compiled from the stage with ASan/UBSan and placed before the tree's own (unsanitised) objects;
# src/fs/rock/RockRebuild.cc itself is #included by harness/c57.cc
UNDER_TEST = ["src/store_rebuild.cc", "src/ipc/StoreMap.cc", "src/ipc/mem/PageStack.cc", "src/store/SwapMetaIn.cc",
              "src/store/SwapMetaView.cc", "src/fs/rock/RockDbCell.cc"]


def build_exe(stage):
    built = getattr(stage, "built", None)
    if built is None:
        built = stage.built = {}
    if "c57" not in built:
        from concurrent.futures import ThreadPoolExecutor
        flags = ["-fno-sanitize=vptr"]
        with ThreadPoolExecutor(max_workers=2) as ex:
            fh = ex.submit(stage.compile, os.path.join(VERIF, "harness", "c57.cc"), extra=flags + ["-fno-access-control"])
            fo = ex.submit(stage.compile_many, UNDER_TEST, extra=flags)
            objs = [fh.result()] + fo.result()
        # tests/stub_store_client.o also carries a stub storeRebuildStart(): link a copy with weak symbols so that the real
        # store_rebuild.o wins; tests/stub_store_digest.o provides store_digest / storeDigestNoteStoreReady
        import subprocess
        weak = []
        for name in ("stub_store_client", "stub_store_digest"):
            w = os.path.join(stage.work, "c57_weak_%s.o" % name)
            subprocess.run(["objcopy", "--weaken", stage.path("src/tests/%s.o" % name), w], check=True)
            weak.append(w)
        out = os.path.join(stage.work, "c57")
        drop = ("tests/stub_store_rebuild.o", "tests/stub_store_client.o")
        try:
            fast_link(stage, "tests/testRock", objs + weak, out, drop)
        except Exception as e:   # noqa: fall back to the tree's own libtool recipe (minutes under load)
            from vf.util import log
            log("C57: libtool-free link failed (%s); using libtool" % str(e)[-300:])
            stage.link_like("tests/testRock", objs + weak, out, drop=drop)
        built["c57"] = out
    return built["c57"]


def la_expand(src_dir, la, seen, libs):
    """static archive of a libtool convenience library + the -l flags it depends on"""
    path = os.path.normpath(os.path.join(src_dir, la))
    if path in seen:
        return []
    seen.add(path)
    d, base = os.path.split(la)
    out = [os.path.join(d or ".", ".libs", base[:-3] + ".a")]
    try:
        text = open(path).read()
    except OSError:
        return out
    m = re.search(r"^dependency_libs='([^']*)'", text, re.M)
    for tk in (m.group(1).split() if m else []):
        if tk.endswith(".la"):
            rel = os.path.relpath(tk, src_dir) if os.path.isabs(tk) else tk
            out += la_expand(src_dir, rel, seen, libs)
        elif tk.startswith("-l") and tk not in libs:
            libs.append(tk)
    return out


def fast_link(stage, test, objs, out, drop):
    """the link line of tests/testRock without libtool: .la -> .libs/*.a (+ their dependency -l flags)"""
    import shlex, subprocess
    toks = shlex.split(stage.link_recipe(test))
    k = toks.index("--mode=link")
    toks = toks[k + 1:]
    src_dir = stage.path("src")
    res, libs, seen = [], [], set()
    skip = False
    for tk in toks:
        if skip:
            skip = False
            continue
        if tk == "-o":
            res += ["-o", out]
            skip = True
        elif tk == test + ".o":
            res += list(objs)
        elif tk in drop or tk == "-Werror":
            continue
        elif tk.endswith(".la"):
            res += la_expand(src_dir, tk, seen, libs)
        else:
            res.append(tk)
    res += libs + ["-fsanitize=address,undefined"]
    r = subprocess.run(res, cwd=src_dir, capture_output=True, text=True)
    if r.returncode != 0:
        raise RuntimeError(r.stderr[-2000:])


class Parallel:
    """the same executable over contiguous chunks of the lines, a few processes side by side (each case is independent:
    the harness creates its own db file and shared segments, named after its pid)"""

    def __init__(self, exe, jobs):
        self.exe, self.jobs = exe, max(1, jobs)
        self.crashes = 0

    def run(self, lines):
        from concurrent.futures import ThreadPoolExecutor
        lines = list(lines)
        k = min(self.jobs, max(1, len(lines) // 50))
        size = (len(lines) + k - 1) // k
        chunks = [lines[i:i + size] for i in range(0, len(lines), size)]
        hs = [ProcHarness([self.exe], env={"UBSAN_OPTIONS": "print_stacktrace=0:halt_on_error=1:exitcode=86"}) for _ in chunks]
        with ThreadPoolExecutor(max_workers=k) as ex:
            outs = list(ex.map(lambda hc: hc[0].run(hc[1]), zip(hs, chunks)))
        self.crashes += sum(h.crashes for h in hs)
        return [o for out in outs for o in out]


def build(stage):
    return Parallel(build_exe(stage), min(4, int(os.environ.get("VERIF_JOBS", "4"))))


# ------------------------------------------------------------------------------------------------ image representation

U64 = 1 << 64
ALL_ONES = U64 - 1
HDR = 40          # sizeof(DbCellHeader); the harness refuses metadata that does not fit slotSize - HDR
META_KEYED = 75   # swap_hdr_sz of prefix + key + std_lfs as serialised by the harness
META_KEYLESS = 54
KEY_PRIVATE = 1 << 7


class Cell:
    """one non-empty db slot: DbCellHeader fields + metadata class token"""
    __slots__ = ("k0", "k1", "esz", "psz", "ver", "first", "next", "meta")

    def __init__(self, k0, k1, esz, psz, ver, first, nxt, meta="-"):
        self.k0, self.k1, self.esz, self.psz, self.ver, self.first, self.next, self.meta = k0, k1, esz, psz, ver, first, nxt, meta

    def copy(self):
        return Cell(self.k0, self.k1, self.esz, self.psz, self.ver, self.first, self.next, self.meta)

    def tok(self):
        return "c:%d:%d:%d:%d:%d:%d:%d:%s" % (self.k0, self.k1, self.esz, self.psz, self.ver, self.first, self.next, self.meta)


def slot_tok(s):
    return s if isinstance(s, str) else s.tok()


def line_of(n, slot_size, s_flag, slots):
    assert len(slots) == n
    if "t" in slots:     # the file ends at the first truncated slot
        k = slots.index("t")
        slots = slots[:k] + ["t"] * (n - k)
    return "r %d %d %d %s" % (n, slot_size, s_flag, " ".join(slot_tok(s) for s in slots))


def parse_slot(tok):
    if tok in ("z", "t"):
        return tok
    f = tok.split(":")
    if len(f) != 9 or f[0] != "c":
        raise ValueError(tok)
    return Cell(int(f[1]), int(f[2]), int(f[3]), int(f[4]), int(f[5]), int(f[6]), int(f[7]), f[8])


def parse_line(line):
    tk = line.split()
    n, slot_size, s_flag = int(tk[1]), int(tk[2]), int(tk[3])
    return n, slot_size, s_flag, [parse_slot(t) for t in tk[4:]]


def fileno(k0, k1, n):
    return ((k0 + k1) % U64) % min(n, 1 << 24)


def meta_ok(mk0, mk1, sfs, flags=0, hdrlen=META_KEYED):
    return "K.%d.%d.%d.%d.%d" % (mk0, mk1, sfs, flags, hdrlen)


def parse_meta(tok):
    """-> None (parser fails / zeroed / keyless) or (mk0, mk1, sfs, flags, hdrlen)"""
    p = tok.split(".")
    if p[0] == "K" and len(p) == 6:
        return tuple(int(x) for x in p[1:])
    return None


def cell_sane(c, n, slot_size):
    return 0 <= c.first < n and -1 <= c.next < n and c.ver > 0 and 0 < c.psz <= slot_size - HDR


def cell_empty(c):
    return c.first == 0 and c.next == 0 and c.psz == 0


def usable(s, n, slot_size):
    """a slot useNewSlot() gets to see"""
    return isinstance(s, Cell) and not cell_empty(s) and cell_sane(s, n, slot_size)


# ------------------------------------------------------------------------------------------------ generators

def key_for(rng, f, n, kind=0):
    """a key that hashes to fileno f of an n-entry map"""
    if kind == 0:      # small words
        k0 = rng.range(1, 1000)
        k1 = (f - k0) % n + n * rng.below(50)
    elif kind == 1:    # big words whose 64-bit sum wraps
        k0 = rng.range(U64 - 1000, U64 - 1)
        base = (U64 - k0)          # k0 + base == 0 mod 2^64
        k1 = (base + f + n * rng.below(20)) % U64
        if fileno(k0, k1, n) != f:
            k1 = (k1 + (f - fileno(k0, k1, n))) % U64
    else:              # one zero word
        k0 = 0
        k1 = f + n * rng.range(0, 30)
        if k1 == 0:
            k1 = n
    if fileno(k0, k1, n) != f:   # n not dividing 2^64 makes the wrapping case approximate: fall back
        k0 = 7
        k1 = (f - 7) % n + n
    return k0, k1


def make_entry(rng, n, slot_size, f, positions, ver=None, key=None, size_mode=None):
    """cells of one well-formed entry stored at `positions` (chain order); returns {pos: Cell}"""
    k0, k1 = key if key else key_for(rng, f, n, rng.choice([0, 0, 0, 1, 2]))
    ver = ver or rng.range(1, 5)
    maxp = slot_size - HDR
    sizes = [rng.choice([1, 2, 3, rng.range(1, maxp), maxp]) for _ in positions]
    total = sum(sizes)
    mode = size_mode if size_mode is not None else rng.below(8)
    hdrlen = META_KEYED if rng.chance(3, 4) or slot_size - HDR < META_KEYED + 6 else rng.range(META_KEYED + 6, min(slot_size - HDR, 400))
    if mode <= 2:      # size in the cell header and in the metadata
        esz, sfs = total, total
    elif mode == 3:    # size in the cell header only
        esz, sfs = total, 0
    elif mode == 4:    # size in the metadata only
        esz, sfs = 0, total
    elif mode == 5:    # unknown until the end
        esz, sfs = 0, 0
    elif mode == 6:    # metadata counts the body without the swap header
        esz, sfs = total, (total - hdrlen) % U64
        if sfs == 0:
            sfs = total
    else:
        esz, sfs = total, total
    cells = {}
    for i, p in enumerate(positions):
        nxt = positions[i + 1] if i + 1 < len(positions) else -1
        inode = i == 0
        # squid writes entrySize into every cell once known; only the inode's value is read by the rebuild
        cells[p] = Cell(k0, k1, esz if (inode or rng.chance(1, 2)) else 0, sizes[i], ver, positions[0], nxt,
                        meta_ok(k0, k1, sfs, 0, hdrlen) if inode else "-")
    return cells


def valid_image(rng, n, slot_size, nent=None):
    """slots with a few well-formed entries on distinct filenos; -> (slots, entries) with entries = [(f, positions)]"""
    slots = ["z"] * n
    free = list(range(n))
    rng.shuffle(free)
    filenos = list(range(n))
    rng.shuffle(filenos)
    nent = nent if nent is not None else rng.range(1, max(1, min(5, n // 2)))
    entries = []
    for e in range(nent):
        if not free or not filenos:
            break
        m = min(len(free), rng.choice([1, 1, 2, 2, 3, 4, rng.range(1, 6)]))
        pos = [free.pop() for _ in range(m)]
        f = filenos.pop()
        for p, c in make_entry(rng, n, slot_size, f, pos).items():
            slots[p] = c
        entries.append((f, pos))
    return slots, entries


def pick_geometry(rng, tier):
    n = rng.choice([1, 2, 3, 4, 5, 6, 8, 8, 12, 16, 16, 24, 32] + ([48, 64, 100] if tier == "thorough" else []))
    slot_size = rng.choice([128, 128, 160, 256, 256, 512, 1024, 4096, 4136, 8192])
    return n, slot_size


def mutate(rng, n, slot_size, slots, entries, allow_crashy):
    """one mutation in place; returns a short name"""
    cells = [i for i, s in enumerate(slots) if isinstance(s, Cell)]
    kind = rng.below(22)
    if not cells:
        kind = 21
    if kind == 0 and cells:          # nextSlot anywhere (incl. out of range, self, another entry)
        i = rng.choice(cells)
        slots[i] = c = slots[i].copy()
        c.next = rng.choice([-1, i, rng.range(-1, n - 1), rng.choice(cells), n, n + 1, -2, 2147483647, -2147483648])
        return "next"
    if kind == 1 and cells:          # firstSlot
        i = rng.choice(cells)
        slots[i] = c = slots[i].copy()
        c.first = rng.choice([i, rng.range(0, n - 1), rng.choice(cells), n, -1, 2147483647])
        return "first"
    if kind == 2 and cells:          # payloadSize
        i = rng.choice(cells)
        slots[i] = c = slots[i].copy()
        c.psz = rng.choice([0, 1, max(1, c.psz - 1), c.psz + 1, slot_size - HDR, slot_size - HDR + 1, slot_size, 4294967295])
        return "psz"
    if kind == 3 and cells:          # entrySize
        i = rng.choice(cells)
        slots[i] = c = slots[i].copy()
        opts = [0, 1, max(0, c.esz - 1), c.esz + 1, c.esz + rng.range(1, 100), rng.range(1, 4 * slot_size), ALL_ONES - 1, 1 << 63]
        if allow_crashy:
            opts += [ALL_ONES] * 3
        c.esz = rng.choice(opts)
        return "esz"
    if kind == 4 and cells:          # version
        i = rng.choice(cells)
        slots[i] = c = slots[i].copy()
        c.ver = rng.choice([0, c.ver + 1, 4294967295, 1])
        return "ver"
    if kind == 5 and cells:          # key: another entry's key, a colliding key, the zero key, a key of another fileno
        i = rng.choice(cells)
        slots[i] = c = slots[i].copy()
        f = fileno(c.k0, c.k1, n)
        r = rng.below(5)
        if r == 0:
            o = slots[rng.choice(cells)]
            c.k0, c.k1 = o.k0, o.k1
        elif r == 1:
            c.k0, c.k1 = key_for(rng, f, n, rng.below(3))
        elif r == 2:
            c.k0, c.k1 = 0, 0
        elif r == 3:
            c.k0, c.k1 = key_for(rng, rng.below(n), n, rng.below(3))
        else:
            c.k0, c.k1 = c.k1, c.k0
        return "key"
    if kind == 6 and cells:          # metadata class of an inode (or of any cell)
        inodes = [i for i in cells if slots[i].first == i] or cells
        i = rng.choice(inodes)
        slots[i] = c = slots[i].copy()
        m = parse_meta(c.meta)
        total = c.esz or (m[2] if m else 0) or rng.range(1, 300)
        r = rng.below(12)
        if r < 4:
            c.meta = rng.choice(["Z", "B", "G", "F", "-"])
        elif r == 4:
            c.meta = "N.%d.0.%d" % (rng.choice([0, total]), META_KEYLESS)
        elif r == 5:
            c.meta = meta_ok(c.k0, c.k1, rng.choice([0, total]), KEY_PRIVATE | rng.below(128), META_KEYED)
        elif r == 6:     # metadata key differs from the cell key (same or other fileno, or zero)
            mk = rng.choice([(0, 0), key_for(rng, fileno(c.k0, c.k1, n), n, 0), key_for(rng, rng.below(n), n, 0), (c.k1, c.k0)])
            c.meta = meta_ok(mk[0], mk[1], rng.choice([0, total]), 0, META_KEYED)
        elif r == 7:     # swap_file_sz disagrees with the cell header
            opts = [1, total + 1, max(1, total - 1), total + META_KEYED, (total - META_KEYED) % U64, ALL_ONES - 1]
            if allow_crashy:
                opts += [ALL_ONES]
            c.meta = meta_ok(c.k0, c.k1, rng.choice(opts), 0, META_KEYED)
        elif r == 8 and slot_size - HDR >= META_KEYED + 6:
            hl = rng.choice([META_KEYED + 6, min(slot_size - HDR, 4000), rng.range(META_KEYED + 6, min(slot_size - HDR, 4000))])
            c.meta = meta_ok(c.k0, c.k1, rng.choice([0, total, (total - hl) % U64]), 0, hl)
        elif r == 9:
            c.meta = meta_ok(c.k0, c.k1, 0, rng.below(65536) & ~KEY_PRIVATE, META_KEYED)
        else:
            c.meta = meta_ok(c.k0, c.k1, total, 0, META_KEYED)
        return "meta"
    if kind == 7 and cells:          # duplicate a cell into another position
        i = rng.choice(cells)
        j = rng.below(n)
        slots[j] = c = slots[i].copy()
        if rng.chance(1, 2):
            c.ver += 1
        if rng.chance(1, 3):
            c.first = j
        return "dup"
    if kind == 8:                    # zero a slot
        slots[rng.below(n)] = "z"
        return "zero"
    if kind == 9:                    # truncate the file
        k = rng.below(n + 1)
        for i in range(k, n):
            slots[i] = "t"
        return "trunc"
    if kind == 10 and entries:       # crash point: the tail of a chain was never written (empty or stale cells remain)
        f, pos = rng.choice(entries)
        j = rng.range(0, len(pos) - 1)
        for p in pos[j:] if rng.chance(1, 4) else pos[j + 1:] or pos[-1:]:
            if rng.chance(1, 2):
                slots[p] = "z"
            else:            # a stale cell of some older entry
                g = rng.below(n)
                k0, k1 = key_for(rng, g, n, 0)
                slots[p] = Cell(k0, k1, rng.choice([0, 5]), rng.range(1, slot_size - HDR), rng.range(1, 3), rng.choice([p, rng.below(n)]),
                                rng.choice([-1, rng.below(n)]), rng.choice(["-", meta_ok(k0, k1, 0)]))
        return "crashpoint"
    if kind == 11 and len(entries) >= 2:   # chain of one entry continues in another entry's chain
        (fa, pa), (fb, pb) = rng.choice(entries), rng.choice(entries)
        if fa != fb:
            i = rng.choice(pa)
            if isinstance(slots[i], Cell):
                slots[i] = c = slots[i].copy()
                c.next = rng.choice(pb)
        return "cross"
    if kind == 12 and len(entries) >= 2:   # the stealing pattern: B's link replaced by a same-sized slot of A
        (fa, pa), (fb, pb) = rng.choice(entries), rng.choice(entries)
        if fa != fb and len(pb) >= 2 and isinstance(slots[pb[0]], Cell) and isinstance(slots[pb[1]], Cell):
            victim = rng.choice(pa)
            if isinstance(slots[victim], Cell):
                slots[victim] = v = slots[victim].copy()
                v.psz = slots[pb[1]].psz
                slots[pb[0]] = c = slots[pb[0]].copy()
                c.next = victim
                if rng.chance(1, 2):
                    slots[victim].next = slots[pb[1]].next
        return "steal"
    if kind == 13 and cells:         # cycle inside a chain
        i = rng.choice(cells)
        slots[i] = c = slots[i].copy()
        c.next = c.first if rng.chance(1, 2) else i
        return "cycle"
    if kind == 14 and entries:       # a second complete copy of an entry (same key, other version) elsewhere
        f, pos = rng.choice(entries)
        spare = [i for i, s in enumerate(slots) if s == "z"]
        rng.shuffle(spare)
        if len(spare) >= len(pos) and isinstance(slots[pos[0]], Cell):
            newpos = spare[:len(pos)]
            key = (slots[pos[0]].k0, slots[pos[0]].k1)
            for p, c in make_entry(rng, n, slot_size, f, newpos, ver=slots[pos[0]].ver + 1, key=key).items():
                slots[p] = c
        return "twin"
    if kind == 15 and entries:       # another key on the same fileno
        f, pos = rng.choice(entries)
        spare = [i for i, s in enumerate(slots) if s == "z"]
        rng.shuffle(spare)
        if spare:
            newpos = spare[:rng.range(1, min(3, len(spare)))]
            for p, c in make_entry(rng, n, slot_size, f, newpos).items():
                slots[p] = c
        return "collide"
    if kind == 16 and cells:         # swap two slots' contents without fixing links
        i, j = rng.choice(cells), rng.below(n)
        slots[i], slots[j] = slots[j], slots[i]
        return "swap"
    if kind == 17 and entries:       # inode declares more (or less) than the chain holds
        f, pos = rng.choice(entries)
        if isinstance(slots[pos[0]], Cell):
            slots[pos[0]] = c = slots[pos[0]].copy()
            total = sum(slots[p].psz for p in pos if isinstance(slots[p], Cell))
            d = rng.choice([1, 1, 2, 75, 1000])
            c.esz = max(1, total + d if rng.chance(2, 3) else total - d)
            if rng.chance(1, 2):
                c.meta = meta_ok(c.k0, c.k1, rng.choice([0, c.esz]), 0, META_KEYED)
        return "declared"
    if kind == 18 and cells:         # an extra slot with the key of an existing entry
        i = rng.choice(cells)
        j = rng.below(n)
        o = slots[i]
        slots[j] = Cell(o.k0, o.k1, rng.choice([0, o.esz]), rng.range(1, slot_size - HDR), rng.choice([o.ver, o.ver + 1]),
                        rng.choice([o.first, j]), rng.choice([-1, o.next, rng.range(-1, n - 1)]), rng.choice(["-", o.meta]))
        return "extra"
    if kind == 19 and cells:         # unlink: the predecessor now ends the chain
        i = rng.choice(cells)
        slots[i] = c = slots[i].copy()
        c.next = -1
        return "unlink"
    if kind == 20 and cells:         # make a tail cell claim to be an inode
        i = rng.choice(cells)
        slots[i] = c = slots[i].copy()
        c.first = i
        if rng.chance(1, 2):
            c.meta = meta_ok(c.k0, c.k1, rng.choice([0, c.esz]), 0, META_KEYED)
        return "inode"
    # fully random cell
    j = rng.below(n)
    k0, k1 = key_for(rng, rng.below(n), n, rng.below(3))
    slots[j] = Cell(k0, k1, rng.choice([0, 1, 2, 3, rng.range(0, 500)]), rng.choice([1, 2, 3, rng.range(0, slot_size)]), rng.range(0, 3),
                    rng.range(-1, n), rng.range(-2, n), rng.choice(["-", "Z", meta_ok(k0, k1, rng.choice([0, 1, 2, 3])), "N.0.0.%d" % META_KEYLESS]))
    return "random"


def crashy(slots):
    """could trip the all-ones asserts (kept rare: the real squid dies on them)"""
    for s in slots:
        if isinstance(s, Cell):
            m = parse_meta(s.meta)
            if s.esz == ALL_ONES or (m and m[2] == ALL_ONES):
                return True
    return False


def small_images(n, alphabet):
    for img in itertools.product(alphabet, repeat=n):
        yield list(img)


def small_alphabet(n, rich):
    """cells for the exhaustive small scope: two filenos, every first/next, two payload sizes, three declared sizes"""
    out = ["z"]
    keys = [(1, 0), (2, 0)] if n > 1 else [(1, 0)]
    for (k0, k1) in keys:
        for first in range(n):
            for nxt in range(-1, n):
                for psz in ((1, 2) if rich else (1,)):
                    for esz in ((0, 2, 3) if rich else (0, 2)):
                        out.append(Cell(k0, k1, esz, psz, 1, first, nxt, meta_ok(k0, k1, 0)))
    return out


def cases(rng, tier):
    thorough = tier == "thorough"
    # 1. exhaustive small scopes
    if thorough:
        for img in small_images(1, small_alphabet(1, True)):
            yield line_of(1, 128, 1, img)
        for img in small_images(2, small_alphabet(2, True)):
            yield line_of(2, 128, 0, img)
        for img in small_images(2, small_alphabet(2, False)):
            yield line_of(2, 128, 1, img)     # the same scope under squid -S
        a3 = small_alphabet(3, False)
        for img in small_images(3, a3[::3] if len(a3) > 40 else a3):
            yield line_of(3, 128, 0, img)
    else:
        for img in small_images(2, small_alphabet(2, False)):
            yield line_of(2, 128, 1 if rng.chance(1, 4) else 0, img)
    # 2. valid images (every entry must become readable) in scrambled slot order
    nvalid = 1500 if thorough else 250
    for _ in range(nvalid):
        n, slot_size = pick_geometry(rng, tier)
        slots, _ = valid_image(rng, n, slot_size)
        yield line_of(n, slot_size, rng.below(2), slots)
    # 3. mutated images
    nmut = 30000 if thorough else 2500
    ncrashy = 0
    for _ in range(nmut):
        n, slot_size = pick_geometry(rng, tier)
        slots, entries = valid_image(rng, n, slot_size)
        allow = ncrashy < (40 if thorough else 6)
        for _ in range(rng.choice([1, 1, 1, 2, 2, 3, 5])):
            mutate(rng, n, slot_size, slots, entries, allow)
        if crashy(slots):
            if not allow:
                continue
            ncrashy += 1
        yield line_of(n, slot_size, 1 if rng.chance(1, 3) else 0, slots)
    # 4. dense random images on few filenos (collisions, long "more" chains)
    nrand = 6000 if thorough else 500
    for _ in range(nrand):
        n = rng.choice([2, 3, 4, 5, 6, 8])
        slot_size = 128
        keys = [key_for(rng, rng.below(n), n, 0) for _ in range(rng.range(1, 3))]
        slots = []
        for i in range(n):
            if rng.chance(1, 6):
                slots.append("z")
                continue
            k0, k1 = rng.choice(keys)
            esz = rng.choice([0, 0, 1, 2, 3, 4, 5])
            slots.append(Cell(k0, k1, esz, rng.choice([1, 1, 2, 3]), rng.choice([1, 1, 2]), rng.choice([i, rng.below(n)]), rng.range(-1, n - 1),
                              rng.choice([meta_ok(k0, k1, 0), meta_ok(k0, k1, esz), "-", "Z"])))
        yield line_of(n, slot_size, 1 if rng.chance(1, 3) else 0, slots)


def exhaustive(tier):
    return True   # all 2-slot images over the small alphabet (quick); 1-, 2- and sampled 3-slot images over the richer one (thorough)


# ------------------------------------------------------------------------------------------------ the direct oracle

class Dump:
    """parsed `ok ...` line of the harness"""

    def __init__(self, text):
        parts = dict(p.split("=", 1) for p in text.split(" ")[1:])
        self.count = int(parts["n"])
        self.states = parts["st"]
        self.anchors = {}
        if parts["A"] != "-":
            for a in parts["A"].split(","):
                f, fl, key, start, sfs = a.split(":")
                k0, k1 = key.split(".")
                self.anchors[int(f)] = {"flags": fl, "k0": int(k0), "k1": int(k1), "start": int(start), "sfs": int(sfs)}
        self.slices = {}
        if parts["S"] != "-":
            for s in parts["S"].split(","):
                i, size, nxt = s.split(":")
                self.slices[int(i)] = (int(size), int(nxt))
        self.free = [] if parts["F"] == "-" else [int(x) for x in parts["F"].split(",")]
        self.lflags = [x.split("/") for x in parts["L"].split(",")]

    def readable(self):
        """filenos a reader may open: unlocked, non-empty key, not marked for deletion"""
        return [f for f, a in sorted(self.anchors.items())
                if "w" not in a["flags"] and "q" not in a["flags"] and (a["k0"] or a["k1"])]

    def chain(self, f, n):
        """-> (slot list, problem or None)"""
        out, seen = [], set()
        s = self.anchors[f]["start"]
        while s != -1:
            if s < 0 or s >= n:
                return out, "chain of entry %d leaves the db at slot id %d" % (f, s)
            if s in seen:
                return out, "chain of entry %d is cyclic at slot %d" % (f, s)
            seen.add(s)
            out.append(s)
            s = self.slices.get(s, (0, -1))[1]
        return out, None


def judge(line, impl):
    """-> list of (kind, text); kinds: crash size free foreign shared cyclic range locked empty mismatch unparsable"""
    if impl.startswith("crash:") or impl.startswith("abort:"):
        return [("crash", "rebuild crashed: " + impl)]
    if impl.startswith("bad-"):
        return []
    try:
        n, slot_size, s_flag, slots = parse_line(line)
        d = Dump(impl)
    except Exception as e:   # noqa
        return [("unparsable", "unparsable harness output %r (%s)" % (impl[:80], e))]
    probs = []
    if "L" in d.states or any("w" in a["flags"] for a in d.anchors.values()):
        probs.append(("locked", "rebuild finished with an entry still being loaded"))
    used = {}
    freeset = set(d.free)
    for f in d.readable():
        a = d.anchors[f]
        chain, prob = d.chain(f, n)
        if prob:
            probs.append(("cyclic" if "cyclic" in prob else "range", prob))
            continue
        if not chain:
            probs.append(("empty", "readable entry %d has no slots" % f))
            continue
        total = 0
        for s in chain:
            size, nxt = d.slices.get(s, (0, -1))
            total += size
            if size == 0:
                probs.append(("empty", "readable entry %d links the empty slice %d" % (f, s)))
            if s in freeset:
                probs.append(("free", "slot %d of readable entry %d is on the free-slot stack" % (s, f)))
            if s in used:
                probs.append(("shared", "slot %d is linked by readable entries %d and %d" % (s, used[s], f)))
            used[s] = f
            c = slots[s]
            if not usable(c, n, slot_size):
                probs.append(("foreign", "slot %d of readable entry %d is not a valid db cell" % (s, f)))
            else:
                if c.psz != size or c.next != nxt:
                    probs.append(("mismatch", "slice %d of readable entry %d differs from the db cell" % (s, f)))
                if fileno(c.k0, c.k1, n) != f:
                    probs.append(("foreign", "slot %d of readable entry %d belongs to entry %d on disk" % (s, f, fileno(c.k0, c.k1, n))))
        if total != a["sfs"]:
            probs.append(("size", "slices of readable entry %d add up to %d but its swap_file_sz is %d" % (f, total, a["sfs"])))
    return probs


def oracle(line, impl):
    probs = judge(line, impl)
    if not probs:
        return None
    return "; ".join("[%s] %s" % p for p in probs[:4])


# ------------------------------------------------------------------------------------------------ known findings

def links_leave_entry(n, slot_size, slots):
    """some usable cell's nextSlot points at a slot that is not a usable cell of the same fileno"""
    for i, c in enumerate(slots):
        if usable(c, n, slot_size) and c.next >= 0:
            t = slots[c.next]
            if not usable(t, n, slot_size) or fileno(t.k0, t.k1, n) != fileno(c.k0, c.k1, n):
                return True
    return False


def declared_sizes(n, slot_size, slots):
    """{fileno: True} for inodes that declare a size (cell header or metadata)"""
    out = set()
    for i, c in enumerate(slots):
        if usable(c, n, slot_size) and c.first == i:
            m = parse_meta(c.meta)
            if c.esz > 0 or (m and m[2] > 0):
                out.add(fileno(c.k0, c.k1, n))
    return out


def classify(line, impl, why):
    try:
        n, slot_size, s_flag, slots = parse_line(line)
    except Exception:   # noqa
        return None
    probs = judge(line, impl)
    kinds = set(k for k, _ in probs)
    if not kinds:
        return None
    if kinds == {"crash"}:
        if impl in ("crash:assert:entrySize-all-ones", "crash:assert:swap_file_sz-all-ones") and crashy(slots):
            return "C57-all-ones-size-assert"
        if impl in ("crash:assert:free-slot-pushed-twice", "crash:must:unprocessed-slot") and links_leave_entry(n, slot_size, slots):
            return "C57-foreign-next-slot"
        return None
    if kinds <= {"free", "foreign", "size"} and (kinds & {"free", "foreign"}):
        # the chain of a readable entry runs through a slot of another entry (which may since have been freed)
        if not links_leave_entry(n, slot_size, slots):
            return None
        if "size" in kinds and not size_is_short(line, impl):
            return None
        return "C57-foreign-next-slot"
    if kinds == {"size"}:
        return "C57-short-entry-finalised" if size_is_short(line, impl) else None
    return None


def size_is_short(line, impl):
    """every [size] problem is `sum < swap_file_sz` on an entry whose inode declared a size"""
    n, slot_size, s_flag, slots = parse_line(line)
    d = Dump(impl)
    declared = declared_sizes(n, slot_size, slots)
    for f in d.readable():
        chain, prob = d.chain(f, n)
        if prob:
            return False
        total = sum(d.slices.get(s, (0, -1))[0] for s in chain)
        sfs = d.anchors[f]["sfs"]
        if total != sfs and not (total < sfs and f in declared):
            return False
    return True


def shrink(line):
    """image-aware shrinking: empty a slot, drop the last slot, simplify fields"""
    try:
        n, slot_size, s_flag, slots = parse_line(line)
    except Exception:   # noqa
        return
    if n > 1 and slots[-1] in ("z", "t"):
        ok = all(not isinstance(s, Cell) or (s.first < n - 1 and s.next < n - 1) for s in slots[:-1])
        if ok:
            # dropping a slot changes the hash: only when every key keeps its fileno
            if all(not isinstance(s, Cell) or fileno(s.k0, s.k1, n) == fileno(s.k0, s.k1, n - 1) for s in slots[:-1]):
                yield line_of(n - 1, slot_size, s_flag, slots[:-1])
    for i, s in enumerate(slots):
        if s != "z":
            yield line_of(n, slot_size, s_flag, slots[:i] + ["z"] + slots[i + 1:])
    if slot_size != 128 and all(not isinstance(s, Cell) or s.psz <= 128 - HDR for s in slots):
        yield line_of(n, 128, s_flag, slots)
    if s_flag:
        yield line_of(n, slot_size, 0, slots)
    for i, s in enumerate(slots):
        if isinstance(s, Cell):
            for field, val in (("psz", 1), ("esz", 0), ("ver", 1), ("next", -1), ("meta", "-"), ("meta", meta_ok(s.k0, s.k1, 0))):
                if getattr(s, field) != val and len(str(val)) < len(str(getattr(s, field))):
                    c = s.copy()
                    setattr(c, field, val)
                    yield line_of(n, slot_size, s_flag, slots[:i] + [c] + slots[i + 1:])
            f = fileno(s.k0, s.k1, n)
            small = (f if f else n, 0)
            if (s.k0, s.k1) != small and len(str(small[0])) + 1 < len(str(s.k0)) + len(str(s.k1)):
                # rename the key everywhere (cell keys and metadata keys)
                out = []
                for t in slots:
                    if isinstance(t, Cell):
                        t = t.copy()
                        if (t.k0, t.k1) == (s.k0, s.k1):
                            t.k0, t.k1 = small
                        m = parse_meta(t.meta)
                        if m and (m[0], m[1]) == (s.k0, s.k1):
                            t.meta = meta_ok(small[0], small[1], m[2], m[3], m[4])
                    out.append(t)
                yield line_of(n, slot_size, s_flag, out)


# ------------------------------------------------------------------------------------------------ evidence

def nontrivial(line, impl, model):
    if impl.startswith("crash:"):
        return True
    m = re.search(r" st=(\S+)", impl)
    return bool(m) and ("D" in m.group(1) or "C" in m.group(1))


def tag(line, impl, model):
    if impl.startswith("crash:") or impl.startswith("abort:") or impl.startswith("bad-"):
        return impl.split(" ")[0][:60]
    m = re.search(r" st=(\S+)", impl)
    st = m.group(1) if m else ""
    nd, nc = st.count("D"), st.count("C")
    n = len(st)
    size = "n<=3" if n <= 3 else "n<=8" if n <= 8 else "n<=32" if n <= 32 else "n>32"
    return "%s loaded=%s rejected=%s S=%s" % (size, "0" if nd == 0 else "1" if nd == 1 else "2+", "0" if nc == 0 else "1" if nc == 1 else "2+",
                                              line.split(" ")[3])
