"""C57 Rock rebuild indexes only intact entries from any disk image."""
import os
from vf.util import VERIF
from vf.harness import ProcHarness

ID = "C57"
PROP_MODULE = "SquidModel.Properties.C57"
MODEL = "c57"
GEN = ["rock_rebuild"]

# code under test, compiled from the stage with ASan/UBSan and placed before the tree's own (unsanitised) objects;
# src/fs/rock/RockRebuild.cc itself is #included by harness/c57.cc
UNDER_TEST = ["src/store_rebuild.cc", "src/ipc/StoreMap.cc", "src/ipc/mem/PageStack.cc", "src/store/SwapMetaIn.cc",
              "src/store/SwapMetaView.cc", "src/fs/rock/RockDbCell.cc"]


def build_exe(stage):
    built = getattr(stage, "built", None)
    if built is None:
        built = stage.built = {}
    if "c57" not in built:
        from concurrent.futures import ThreadPoolExecutor
        flags = ["-fno-sanitize=vptr"]
        with ThreadPoolExecutor(max_workers=2) as ex:
            fh = ex.submit(stage.compile, os.path.join(VERIF, "harness", "c57.cc"), extra=flags + ["-fno-access-control"])
            fo = ex.submit(stage.compile_many, UNDER_TEST, extra=flags)
            objs = [fh.result()] + fo.result()
        # tests/stub_store_client.o also carries a stub storeRebuildStart(): link a copy with weak symbols so that the real
        # store_rebuild.o wins; tests/stub_store_digest.o provides store_digest / storeDigestNoteStoreReady
        import subprocess
        weak = []
        for name in ("stub_store_client", "stub_store_digest"):
            w = os.path.join(stage.work, "c57_weak_%s.o" % name)
            subprocess.run(["objcopy", "--weaken", stage.path("src/tests/%s.o" % name), w], check=True)
            weak.append(w)
        built["c57"] = stage.link_like("tests/testRock", objs + weak, os.path.join(stage.work, "c57"),
                                       drop=("tests/stub_store_rebuild.o", "tests/stub_store_client.o"))
    return built["c57"]


def build(stage):
    return ProcHarness([build_exe(stage)])
