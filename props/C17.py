"""C17 Completed disk cache entries survive a clean restart (end to end; ufs, aufs, diskd and rock cache_dirs)."""
import os, re, subprocess, importlib
from vf import leanp

H = importlib.import_module("harness.c17")

ID = "C17"
PROP_MODULE = "SquidModel.Properties.C17"
MODEL = "c17"
GEN = ["restart_consts"]
MINIMISE_BUDGET = 24
MAX_REPORT = 4
RULE = ("scenario = cache_dir type (ufs, aufs, diskd, rock) x a history of up to 4 URLs: new origin versions fetched and swapped out "
        "(sizes across memory-page and rock-slot boundaries, four header shapes incl. chunked origin framing), hits, plain fetches, PURGE, "
        "DELETE invalidation, with a clean shutdown + start after each of the two phases; observed: every operation's result and, after "
        "the last start, an only-if-cached GET of every URL compared byte for byte (body, ETag, Content-Type, Last-Modified, Expires, "
        "Cache-Control, Content-Length) with the version the origin served; non-trivial = at least one URL must be a hit after a "
        "restart; distinct = distinct scenario lines")
TRUSTED = ["modelled, not verified: DiskIO modules, unlinkd/diskd helper processes, Comm I/O, HTTP parsing, swap metadata encoding "
           "(keys and sizes are abstract), the rig's origin stub; `fileNoByKey` collisions between URLs are detected from store.log and excluded"]
ASSUMPTIONS = ["ample cache space (400 MB per cache_dir for < 5 MB of objects): no replacement-policy evictions",
               "requests are sent only after the index rebuild has finished (\"Completed Validation Procedure\" in cache.log)",
               "every store is awaited (SWAPOUT line in store.log) before the next operation of the scenario; cacheable 200 responses with a validator",
               "-N mode (no workers/diskers): rock uses blocking I/O"]
MANIFEST = {
    "engine": "e2e",
    "text": "partial: for the model of the ufs-family cache_dir (file-number map, unlink queue, swap.state records with StoreSwapLogData::sane, "
            "storeDirWriteCleanLogs, RebuildState::rebuildFromSwapLog/rebuildFromDirectory/addIfFresh/evictStaleAndContinue, hit validation) "
            "theorem ufs_history_preserved_partial shows for ALL histories with any number of clean restarts that every URL is served "
            "exactly the last completely stored, not purged response, provided no file number is re-allocated while the unlink of its previous "
            "file is still queued (ufs_unlink_race_counterexample: without that a stored response is lost); for rock, "
            "rock_single_slot_restored / rock_single_chain_restored / rock_stale_cell_drops_entry_counterexample / rock_purged_entry_returns_counterexample describe "
            "Rock::Rebuild on the cells a clean run leaves; the models are tied to the rebuilt binary by scenario correspondence over four "
            "cache_dir types and, for rock, by replaying the slot headers read from the real db file through the model's rebuild",
    "note": "trusted: Lean kernel, python rig (origin/client stubs), loopback TCP; not modelled: disk I/O modules, helper processes, "
            "memory cache, replacement policy evictions, SMP diskers, I/O errors, crashes (C16)",
    "technique": "Lean 4 proof (invariant over histories incl. restarts) + constants translator + end-to-end scenario correspondence "
                 "with four rebuilt squid instances restarted twice per batch",
}


def build(stage):
    return H.Harness(stage)


# ------------------------------------------------------------------------------------------------ generators

SIZES = [0, 1, 2, 100, 1000, 3000, 3500, 3600, 3700, 3800, 3900, 4000, 4055, 4056, 4057, 4095, 4096, 4097, 5000, 7600, 7700, 7800, 8000, 8112, 8192, 8193,
         12000, 16384, 20000, 32768, 40000, 65536, 70000, 100000, 200000]


def op_s(rng, k, tier):
    n = rng.choice(SIZES) if rng.chance(3, 4) else rng.below(300000 if tier == "thorough" and rng.chance(1, 8) else 20000)
    return "S%d.%d.%d.%d" % (k, n, rng.below(1000), rng.below(4))


def random_phase(rng, nk, n, tier, first):
    ops = []
    for i in range(n):
        k = rng.below(nk)
        c = rng.below(20)
        if c < (10 if first else 6):
            ops.append(op_s(rng, k, tier))
        elif c < 13:
            ops.append("G%d" % k)
        elif c < 15:
            ops.append("F%d" % k)
        elif c < 18:
            ops.append("P%d" % k)
        else:
            ops.append("D%d" % k)
    return ",".join(ops) if ops else "-"


def random_case(rng, tier, store=None):
    store = store or rng.choice(H.STORES)
    nk = rng.range(1, 4)
    p1 = random_phase(rng, nk, rng.range(2, 8), tier, True)
    p2 = random_phase(rng, nk, rng.range(0, 4), tier, False)
    return "%s %d %s %s" % (store, nk, p1, p2)


def once_only_case(rng, tier, store):
    """every URL stored exactly once, never purged: the region where the property holds for every store type"""
    nk = rng.range(1, 4)
    ks = list(range(nk))
    rng.shuffle(ks)
    cut = rng.range(0, nk)
    ops1 = [op_s(rng, k, tier) for k in ks[:cut]] + ["G%d" % rng.below(nk) for _ in range(rng.below(3))]
    ops2 = [op_s(rng, k, tier) for k in ks[cut:]] + ["G%d" % rng.below(nk) for _ in range(rng.below(3))]
    return "%s %d %s %s" % (store, nk, ",".join(ops1) or "-", ",".join(ops2) or "-")


def boundary_cases():
    for store in H.STORES:
        # sizes around the memory page and the rock slot payload (4096 - 40 byte cell header), one and two slots
        yield "%s 4 S0.3600.1.0,S1.3700.2.0,S2.3800.3.0,S3.3900.4.0 G0,G3" % store
        yield "%s 4 S0.7700.1.1,S1.7800.2.1,S2.7900.3.1,S3.8000.4.1 -" % store
        yield "%s 3 S0.0.1.0,S1.1.1.3,S2.70000.2.1 -" % store
        yield "%s 2 S0.5000.1.0,G0,S0.6000.2.1,S1.100.3.2,P1,G1 G0,F1" % store
        yield "%s 2 S0.20000.1.0,S0.9000.2.0,S1.9000.3.0,P1,S1.100.4.0 G0,G1" % store
        yield "%s 1 S0.100.1.0,P0 F0" % store
        yield "%s 1 S0.100.1.2,D0 -" % store
        yield "%s 2 - S0.4096.1.3,S1.4096.2.0" % store
        yield "%s 1 F0,G0 G0,P0,G0" % store


def exhaustive_cases(tier):
    """thorough: every history of <= 3 operations on one URL (fixed sizes), with the first restart at every position, for every store type"""
    if tier != "thorough":
        return
    alphabet = ["S0.4100.5.1", "G0", "F0", "P0", "D0"]
    seqs = [[]]
    frontier = [[]]
    for _ in range(3):
        frontier = [s + [a] for s in frontier for a in alphabet]
        seqs += frontier
    for store in H.STORES:
        for s in seqs:
            for cut in range(len(s) + 1):
                yield "%s 1 %s %s" % (store, ",".join(s[:cut]) or "-", ",".join(s[cut:]) or "-")


def exhaustive(tier):
    return tier == "thorough"


def mutate(rng, l):
    t = l.split(" ")
    p1 = [] if t[2] == "-" else t[2].split(",")
    p2 = [] if t[3] == "-" else t[3].split(",")
    k = rng.below(5)
    if k == 0 and p1:
        p1.append(rng.choice(p1))                    # duplicate an operation
    elif k == 1 and p1:
        i = rng.below(len(p1))
        p2 = p1[i:] + p2                             # move the restart earlier
        p1 = p1[:i]
    elif k == 2:
        p1, p2 = p2, p1                              # swap the phases
    elif k == 3 and p1:
        del p1[rng.below(len(p1))]                   # drop an operation
    else:
        p2 = p2 + p1                                 # replay the first phase after the restart
    if len(p1) + len(p2) > 14:
        return l
    return "%s %s %s %s" % (t[0], t[1], ",".join(p1) or "-", ",".join(p2) or "-")


def cases(rng, tier):
    yield from boundary_cases()
    yield from exhaustive_cases(tier)
    n = 120 if tier == "thorough" else 18
    base = []
    for store in H.STORES:
        for i in range(n):
            l = once_only_case(rng, tier, store) if i % 3 == 0 else random_case(rng, tier, store)
            base.append(l)
            yield l
    for i in range(len(base) // 5):
        yield mutate(rng, rng.choice(base))


# ------------------------------------------------------------------------------------------------ reference + oracle

def reference(sc):
    """the property itself as a dictionary: URL -> version the cache must hold.  -> (expected op results, expected finals, per-key history)"""
    cache, cur, outs = {}, {}, []
    hist = {k: {"stores": 0, "purges": 0, "vers": []} for k in range(sc["nkeys"])}
    for ph in sc["phases"]:
        for op in ph:
            c, k = op[0], op[1]
            if c == "S":
                cur[k] = cur.get(k, 0) + 1
                cache[k] = cur[k]
                hist[k]["stores"] += 1
                hist[k]["vers"].append(cur[k])
                outs.append("S=ok")
            elif c == "F":
                if k in cache:
                    outs.append("F=H%d" % cache[k])
                else:
                    cur.setdefault(k, 1)
                    cache[k] = cur[k]
                    hist[k]["stores"] += 1
                    hist[k]["vers"].append(cur[k])
                    outs.append("F=M%d" % cache[k])
            elif c == "G":
                outs.append("G=H%d" % cache[k] if k in cache else "G=M")
            elif c == "P":
                outs.append("P=200" if k in cache else "P=404")
                if cache.pop(k, None) is not None:
                    hist[k]["purges"] += 1
            elif c == "D":
                outs.append("D=200")
                if cache.pop(k, None) is not None:
                    hist[k]["purges"] += 1
    fin = ["H%d" % cache[k] if k in cache else "M" for k in range(sc["nkeys"])]
    return outs, fin, hist


def split_obs(impl):
    """-> (op results, finals, extras dict) or None"""
    m = re.match(r"^(.*?) ; ([^=]*?)((?: \w+=\S+)*)$", impl)
    if not m:
        return None
    ops = [] if m.group(1) == "-" else m.group(1).split(",")
    fin = m.group(2).split(" ")
    extra = dict(x.split("=", 1) for x in m.group(3).split())
    return ops, fin, extra


def keyset(extra, name):
    return set(int(x) for x in extra.get(name, "").split(",") if x)


def oracle(l, impl):
    sc = H.parse_line(l)
    if sc is None:
        return None if impl == "bad-op" else "harness accepted a malformed scenario"
    o = split_obs(impl)
    if impl.startswith("abort") or o is None:
        return "no usable observation: " + impl[:200]
    ops, fin, extra = o
    want_ops, want_fin, hist = reference(sc)
    if len(ops) != len(want_ops) or len(fin) != sc["nkeys"]:
        return "no usable observation: " + impl[:200]
    skip = keyset(extra, "collided")
    flat = [op for ph in sc["phases"] for op in ph]
    nfirst = len(sc["phases"][0])
    # once a key of the scenario has gone wrong, later operations on it are judged against what the cache then really held: report the first
    for i, (op, got, want) in enumerate(zip(flat, ops, want_ops)):
        k = op[1]
        if k in skip:
            continue
        if "!" in got:
            return "key %d: operation %d (%s) delivered wrong bytes or headers: %s [%s]" % (k, i, op[0], got, describe(sc, hist, k, extra))
        if got != want:
            where = "before any restart" if i < nfirst else "after the first restart"
            return "key %d: operation %d (%s) %s gave %s, the history requires %s [%s]" % (k, i, op[0], where, got, want, describe(sc, hist, k, extra))
    for k, (got, want) in enumerate(zip(fin, want_fin)):
        if k in skip:
            continue
        if "!" in got:
            return "key %d: hit after the restart delivered wrong bytes or headers: %s [%s]" % (k, got, describe(sc, hist, k, extra))
        if got != want:
            return "key %d: after the last restart got %s, the history requires %s [%s]" % (k, got, want, describe(sc, hist, k, extra))
    return None


def describe(sc, hist, k, extra):
    h = hist[k]
    return "store=%s stores=%d purges=%d swapfail=%d reused=%d" % (sc["store"], h["stores"], h["purges"], int(k in keyset(extra, "swapfail")), int(k in keyset(extra, "reused")))


def classify(l, impl, why):
    m = re.search(r"gave (\S+), the history requires (\S+) \[store=(\w+) stores=(\d+) purges=(\d+) swapfail=(\d) reused=(\d)\]", why or "") or \
        re.search(r"got (\S+), the history requires (\S+) \[store=(\w+) stores=(\d+) purges=(\d+) swapfail=(\d) reused=(\d)\]", why or "")
    if not m:
        return None
    got, want, store, stores, purges, swapfail, reused = m.group(1), m.group(2), m.group(3), int(m.group(4)), int(m.group(5)), m.group(6) == "1", m.group(7) == "1"
    after_restart = "before any restart" not in why
    lost = got in ("G=M", "M") or got.startswith("F=M")
    if store == "rock" and after_restart:
        if lost and want != "M" and want != "G=M" and not want.startswith("F=M") and stores + purges >= 2:
            return "C17-rock-stale-cells-drop-entry"
        if (want in ("M", "G=M") or want.startswith("F=M") or want == "P=404") and purges >= 1 and re.search(r"H\d+$|=200$", got):
            return "C17-rock-freed-entry-returns"
        if want.startswith("P=") and stores + purges >= 2:
            return "C17-rock-stale-cells-drop-entry"
    if store in ("ufs", "aufs") and lost and swapfail and reused:
        return "C17-ufs-unlink-race"
    return None


_driver = [None]


def model_images(lines):
    if _driver[0] is None:
        dev = os.environ.get("VERIF_DEV_DRIVER_C17")        # development aid: an interpreter command line instead of the built driver
        _driver[0] = dev.split(" ") if dev else [leanp.driver_path(MODEL)]
    r = subprocess.run(_driver[0], input=("\n".join(lines) + "\n").encode(), capture_output=True, timeout=120)
    return r.stdout.decode().split("\n")[:len(lines)]


def compare(l, impl, model):
    sc = H.parse_line(l)
    if sc is None:
        return impl == model
    o, m = split_obs(impl), split_obs(model)
    if o is None or m is None:
        return False
    ops, fin, extra = o
    mops, mfin, _ = m
    if len(ops) != len(mops) or len(fin) != len(mfin):
        return False
    skip = keyset(extra, "collided")
    flat = [op for ph in sc["phases"] for op in ph]
    for op, got, allowed in zip(flat, ops, mops):
        if op[1] not in skip and got not in allowed.split("|"):
            return False
    for k, (got, allowed) in enumerate(zip(fin, mfin)):
        if k not in skip and got not in allowed.split("|"):
            return False
    if sc["store"] == "rock" and "img" in extra:
        # the rebuild model replayed on the cells read from the real db file must index exactly what the real rebuild indexed
        lines, keys = [], []
        for part in extra["img"].split(";"):
            k, cells = part.split("/", 1)
            if int(k) in skip:
                continue
            keys.append(int(k))
            lines.append("img %s %s" % (k, cells))
        if lines:
            pred = model_images(lines)
            for k, p in zip(keys, pred):
                got = fin[k].split("!")[0]
                if p != got and not (p == "H0" and got.startswith("H")):
                    return False
    return True


def nontrivial(l, impl, model):
    sc = H.parse_line(l)
    if sc is None:
        return False
    return any(f != "M" for f in reference(sc)[1])


def tag(l, impl, model):
    sc = H.parse_line(l)
    if sc is None:
        return "bad-op"
    o = split_obs(impl or "")
    if o is None:
        return "%s %s" % (sc["store"], (impl or "?").split(" ")[0][:30])
    _, want_fin, hist = reference(sc)
    multi = any(h["stores"] + h["purges"] >= 2 for h in hist.values())
    ok = all(g == w for g, w in zip(o[1], want_fin))
    return "%s %s -> %s" % (sc["store"], "restored-keys" if multi else "once-only", "as-required" if ok else "differs")


def shrink(l):
    t = l.split(" ")
    if len(t) != 4:
        return
    p1 = [] if t[2] == "-" else t[2].split(",")
    p2 = [] if t[3] == "-" else t[3].split(",")
    def mk(a, b, nk=t[1]):
        return "%s %s %s %s" % (t[0], nk, ",".join(a) or "-", ",".join(b) or "-")
    for i in range(len(p1)):
        yield mk(p1[:i] + p1[i + 1:], p2)
    for i in range(len(p2)):
        yield mk(p1, p2[:i] + p2[i + 1:])
    for i, o in enumerate(p1):
        m = re.fullmatch(r"S(\d+)\.(\d+)\.(\d+)\.(\d)", o)
        if m and (int(m.group(2)) > 100 or m.group(3) != "1" or m.group(4) != "0"):
            yield mk(p1[:i] + ["S%s.%d.1.0" % (m.group(1), min(100, int(m.group(2))))] + p1[i + 1:], p2)
    used = set(int(re.match(r"[A-Z](\d+)", o).group(1)) for o in p1 + p2)
    if used and max(used) + 1 < int(t[1]):
        yield mk(p1, p2, str(max(used) + 1))
