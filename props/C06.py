"""C06 CONNECT tunnels relay both directions unchanged (end to end)."""
import socket, threading, time, hashlib
from concurrent.futures import ThreadPoolExecutor
from vf.util import hx, unhx
from e2e import rig

ID = "C06"
PROP_MODULE = "SquidModel.Properties.C06"
MODEL = "c06"
GEN = []
RULE = ("scenario = random binary payloads client->server and server->client x random segmentation of each side's writes x bytes sent right "
        "behind the CONNECT head x who closes first x clean close (after receiving the peer's whole payload) or abort at a random offset; plus back-pressure scenarios (a client that does not read, the server sends until Squid holds unwritten bytes, closes, and its closure reaches Squid through a failed write: every byte must still reach the client); "
        "non-trivial = both payloads non-empty; distinct = distinct scenario lines")
TRUSTED = ["modelled, not verified: Comm I/O scheduling, timeouts, delay pools, TLS, cache_peer CONNECT; kernel TCP (a RST may discard queued data: abort scenarios only require prefixes)"]
ASSUMPTIONS = ["direct tunnel to a loopback TCP server; default configuration"]
MANIFEST = {
    "engine": "e2e",
    "text": "partial: for the relay state machine of one tunnel direction (read only when nothing is pending, write all, zero-byte read closes both ends, sink gone stops the source) and every "
            "event history incl. arbitrary interference from the other direction: out_is_prefix_of_in, eof_delivers_all, early_client_bytes_kept, eof_only_after_everything, pending_write_survives_peer_closure. Tied to the rebuilt "
            "binary by end-to-end scenarios whose observed streams must equal the model's clean-run delivery, and a direct oracle (received == sent on clean close, prefix on abort, nothing but the 200 line before the server's bytes).",
    "note": "trusted: Lean kernel, python rig, loopback TCP. Not modelled: Comm event scheduling, timeouts, the 200 reply generation, peers/TLS",
    "technique": "Lean 4 invariant over event histories of the relay state machine + end-to-end byte-stream correspondence with the rebuilt squid",
}


class TcpServer:
    """raw TCP server; per-connection behaviour looked up by the first bytes the client sends? no: by accept order is racy.
    Each scenario gets its own listening socket instead."""

    def __init__(self):
        self.s = socket.socket()
        self.s.setsockopt(socket.SOL_SOCKET, socket.SO_REUSEADDR, 1)
        self.s.bind(("127.0.0.1", 0))
        self.s.listen(4)
        self.port = self.s.getsockname()[1]

    def accept(self, timeout):
        self.s.settimeout(timeout)
        c, _ = self.s.accept()
        return c

    def close(self):
        self.s.close()


def send_segments(sock, data, cuts, stop_after=None):
    """sends data cut at the given offsets; returns bytes sent"""
    pos = 0
    sent = 0
    for c in list(cuts) + [len(data)]:
        c = min(c, len(data))
        if c <= pos:
            continue
        chunk = data[pos:c]
        if stop_after is not None and sent + len(chunk) > stop_after:
            chunk = chunk[:stop_after - sent]
        try:
            sock.sendall(chunk)
        except OSError:
            return sent
        sent += len(chunk)
        pos = c
        if stop_after is not None and sent >= stop_after:
            return sent
        if len(chunk) < 2000:
            time.sleep(0.001)
    return sent


def recv_n(sock, n, timeout):
    """receive until n bytes or EOF/timeout"""
    buf = b""
    sock.settimeout(timeout)
    while len(buf) < n:
        try:
            d = sock.recv(65536)
        except (socket.timeout, OSError):
            break
        if not d:
            break
        buf += d
    return buf


def recv_all(sock, timeout):
    buf = b""
    sock.settimeout(timeout)
    while True:
        try:
            d = sock.recv(65536)
        except (socket.timeout, OSError):
            return buf, False
        if not d:
            return buf, True
        buf += d


def tcp_queues():
    """{(local_port, remote_port): (tx_queue, rx_queue)} of the loopback TCP sockets (from /proc/net/tcp)"""
    res = {}
    try:
        with open("/proc/net/tcp") as f:
            next(f)
            for l in f:
                w = l.split()
                if len(w) < 5 or w[3] == "0A":
                    continue
                tx, rx = w[4].split(":")
                res[(int(w[1].split(":")[1], 16), int(w[2].split(":")[1], 16))] = (int(tx, 16), int(rx, 16))
    except OSError:
        pass
    return res


class Harness:
    def __init__(self, stage):
        self.squid = rig.Squid(stage, conf="").start()
        # back-pressure scenarios: small kernel buffers so that Squid's to-client write stalls after a few blocks
        self.squid2 = rig.Squid(stage, conf="tcp_recv_bufsize 32768 bytes\n").start()
        self.crashes = 0

    def backlog_once(self, blocksz, seed):
        """The client does not read (tiny receive buffer); the server sends block after block until Squid has read everything but
        holds bytes it could not write to the client; the server closes; the client sends two bytes (the first draws a RST, the write
        of the second fails, so Squid sees the server go away through a write error while its to-client write is pending);
        then the client reads to EOF: it must get every byte the server sent. -> (status, sent, got, held)"""
        import random
        rnd = random.Random(seed)
        T = 10 * rig.VERIF_SLOW
        lsn = socket.socket()
        lsn.setsockopt(socket.SOL_SOCKET, socket.SO_REUSEADDR, 1)
        lsn.setsockopt(socket.SOL_SOCKET, socket.SO_SNDBUF, 1 << 20)
        lsn.bind(("127.0.0.1", 0))
        lsn.listen(4)
        oport = lsn.getsockname()[1]
        c = socket.socket()
        c.setsockopt(socket.SOL_SOCKET, socket.SO_RCVBUF, 4096)
        c.settimeout(T)
        s = None
        try:
            c.connect(("127.0.0.1", self.squid2.port))
            c.sendall(("CONNECT 127.0.0.1:%d HTTP/1.1\r\nHost: 127.0.0.1:%d\r\n\r\n" % (oport, oport)).encode())
            hdr = b""
            while not hdr.endswith(b"\r\n\r\n"):
                b = c.recv(1)
                if not b:
                    return ("no-200", b"", b"", 0)
                hdr += b
            status = hdr.split(b" ")[1].decode("latin-1")
            if status != "200":
                return (status, b"", b"", 0)
            cport = c.getsockname()[1]
            lsn.settimeout(T)
            s, peer = lsn.accept()
            s.setsockopt(socket.IPPROTO_TCP, socket.TCP_NODELAY, 1)
            qport = peer[1]
            time.sleep(0.3)
            sent, held = b"", 0
            for i in range(400):
                blk = bytes(rnd.getrandbits(8) for _ in range(blocksz))
                s.sendall(blk)
                sent += blk
                deadline, stable, settled = time.time() + T, 0, False
                while time.time() < deadline:
                    q = tcp_queues()
                    o_tx = q.get((oport, qport), (0, 0))[0]
                    q_rx = q.get((qport, oport), (0, 0))[1]
                    k_tx = q.get((self.squid2.port, cport), (0, 0))[0]
                    c_rx = q.get((cport, self.squid2.port), (0, 0))[1]
                    inside = len(sent) - c_rx - k_tx
                    if o_tx == 0 and q_rx == 0:
                        if inside == held:
                            stable += 1
                        else:
                            held, stable = inside, 0
                        if stable >= 3:
                            settled = True
                            break
                    time.sleep(0.1)
                if not settled:
                    return ("rig:not-read", sent, b"", held)
                if held > 0:
                    break
            if held <= 0:
                return ("rig:no-stall", sent, b"", 0)
            s.close()
            s = None
            lsn.close()
            time.sleep(0.3)

            def wait_for(cond, limit):
                deadline = time.time() + limit
                while time.time() < deadline:
                    if cond(tcp_queues()):
                        return True
                    time.sleep(0.1)
                return False
            try:
                c.sendall(b"x")
                wait_for(lambda q: (qport, oport) not in q, T)
                time.sleep(0.2)
                c.sendall(b"y")
                wait_for(lambda q: q.get((self.squid2.port, cport), (0, 0))[1] == 0, T)
            except OSError:
                pass
            time.sleep(1.0)
            got, _eof = recv_all(c, T)
            return ("200", sent, got, held)
        except OSError as e:
            return ("rig:%s" % type(e).__name__, b"", b"", 0)
        finally:
            for x in (c, s, lsn):
                try:
                    if x is not None:
                        x.close()
                except OSError:
                    pass

    def backlog(self, line):
        p = line.split(" ")
        try:
            blocksz, seed = int(p[1]), int(p[2])
        except (ValueError, IndexError):
            return "bad-op"
        last = None
        for attempt in range(3):   # a loss is reported only when it repeats (a RST artefact of the rig does not)
            status, sent, got, held = self.backlog_once(blocksz, seed + attempt)
            if not self.squid2.alive():
                return "abort:squid-died"
            if status == "200" and got == sent:
                return "delivered=all"
            last = (status, sent, got, held)
            if status != "200" and not status.startswith("rig:"):
                break
        status, sent, got, held = last
        if status.startswith("rig:"):
            return "delivered=all rig=" + status[4:]     # the situation could not be produced: nothing observed, nothing claimed
        if status != "200":
            return "status=" + status
        return "delivered=short got=%d sent=%d held=%d prefix=%s" % (len(got), len(sent), held, "yes" if sent.startswith(got) else "no")

    def one(self, line):
        p = line.split(" ")
        if p[0] == "backlog":
            return self.backlog(line)
        try:
            mode, cs, sc = p[0], unhx(p[1]), unhx(p[2])
            ccuts = [int(x) for x in p[3].split(",")] if p[3] != "-" else []
            scuts = [int(x) for x in p[4].split(",")] if p[4] != "-" else []
            early, closer, stopat = int(p[5]), p[6], int(p[7])
        except (ValueError, IndexError):
            return "bad-op"
        T = 4 * rig.VERIF_SLOW
        srv = TcpServer()
        res = {}

        def server_side():
            try:
                c = srv.accept(T)
            except OSError:
                res["s"] = (b"", False, "no-accept")
                return
            def tx():
                if mode == "abort" and closer == "s":
                    send_segments(c, sc, scuts, stop_after=stopat)
                else:
                    send_segments(c, sc, scuts)
            t = threading.Thread(target=tx)
            t.start()
            if mode == "clean" and closer == "s":
                got = recv_n(c, len(cs), T)
                t.join()
                c.close()
                res["s"] = (got, len(got) == len(cs), "closed-first")
            elif mode == "abort" and closer == "s":
                t.join()
                c.close()
                res["s"] = (b"", False, "aborted")
            else:
                got, eof = recv_all(c, T)
                t.join()
                c.close()
                res["s"] = (got, eof, "eof" if eof else "timeout")

        st = threading.Thread(target=server_side)
        st.start()
        cl = socket.create_connection(("127.0.0.1", self.squid.port), timeout=T)
        head = ("CONNECT 127.0.0.1:%d HTTP/1.1\r\nHost: 127.0.0.1:%d\r\n\r\n" % (srv.port, srv.port)).encode()
        cl.sendall(head + cs[:early])
        # read the 200 reply head
        buf = b""
        cl.settimeout(T)
        while b"\r\n\r\n" not in buf:
            try:
                d = cl.recv(65536)
            except (socket.timeout, OSError):
                d = b""
            if not d:
                break
            buf += d
        if b"\r\n\r\n" not in buf:
            st.join()
            srv.close()
            cl.close()
            return "no-200 " + hx(buf[:40])
        rhead, rest = buf.split(b"\r\n\r\n", 1)
        status = rhead.split(b" ")[1].decode("latin-1") if b" " in rhead else "?"
        extra_headers = len(rhead.split(b"\r\n")) - 1
        remaining = cs[early:]
        rcuts = [c - early for c in ccuts if c > early]

        def ctx():
            if mode == "abort" and closer == "c":
                send_segments(cl, remaining, rcuts, stop_after=max(0, stopat - early))
            else:
                send_segments(cl, remaining, rcuts)
        t = threading.Thread(target=ctx)
        t.start()
        if mode == "clean" and closer == "c":
            got = rest + recv_n(cl, len(sc) - len(rest), T)
            t.join()
            cl.close()
            cgot, ceof = got, "closed-first"
        elif mode == "abort" and closer == "c":
            t.join()
            cl.close()
            cgot, ceof = rest, "aborted"
        else:
            more, eof = recv_all(cl, T)
            t.join()
            cl.close()
            cgot, ceof = rest + more, "eof" if eof else "timeout"
        st.join()
        srv.close()
        sgot, s_ok, s_how = res.get("s", (b"", False, "none"))
        if not self.squid.alive():
            return "abort:squid-died"
        return "status=%s c_recv=%s c_end=%s s_recv=%s s_end=%s" % (status, hx(cgot), ceof, hx(sgot), s_how)

    def run(self, lines):
        par = [l for l in lines if not l.startswith("backlog")]
        with ThreadPoolExecutor(max_workers=6) as ex:
            res = dict(zip(par, ex.map(rig.guarded(self.one, [self.squid]), par)))
        for l in lines:      # the back-pressure scenarios watch kernel queues: one at a time, on a quiet proxy
            if l.startswith("backlog") and l not in res:
                res[l] = rig.guarded(self.one, [self.squid2])(l)
        return [res[l] for l in lines]

    def close(self):
        self.squid.stop()
        self.squid2.stop()


def build(stage):
    return Harness(stage)


def cuts(rng, n):
    if n == 0:
        return []
    k = rng.below(4)
    if k == 0:
        return []
    if k == 1:
        return sorted({rng.range(1, n) for _ in range(rng.range(1, 6))})
    if k == 2:
        return list(range(1, min(n, 12)))      # byte by byte at the start
    step = rng.choice([1, 7, 100, 1460, 4096, 16384])
    return list(range(step, n, step))[:200]


def payload(rng, big):
    k = rng.below(6)
    if k == 0:
        return b""
    if k == 1:
        return rng.bytes(rng.range(1, 8))
    if k == 2:
        return b"GET / HTTP/1.1\r\nHost: x\r\n\r\n" + rng.bytes(rng.range(0, 50))   # looks like HTTP: must not be interpreted
    if k == 3:
        return rng.bytes(rng.range(100, 5000))
    n = rng.choice([16383, 16384, 16385, 65535, 65536, 65537, 200000]) if big else rng.choice([4095, 4096, 4097, 16384, 16385, 70000])
    return rng.bytes(n)


def cases(rng, tier):
    for i in range(12 if tier == "thorough" else 3):
        yield "backlog %d %d" % (rng.choice([8000, 8000, 4096, 12000, 16384]), rng.range(1, 1 << 30))
    n = 400 if tier == "thorough" else 70
    for i in range(n):
        cs, sc = payload(rng, tier == "thorough"), payload(rng, tier == "thorough")
        mode = "clean" if rng.chance(3, 4) else "abort"
        closer = rng.choice(["c", "s"])
        early = rng.choice([0, 0, 1, min(len(cs), 17), len(cs)]) if cs else 0
        early = min(early, len(cs))
        src = cs if closer == "c" else sc
        stopat = rng.range(0, len(src)) if mode == "abort" else 0
        yield "%s %s %s %s %s %d %s %d" % (mode, hx(cs), hx(sc), ",".join(map(str, cuts(rng, len(cs)))) or "-", ",".join(map(str, cuts(rng, len(sc)))) or "-", early, closer, stopat)


def oracle(line, impl):
    p = line.split(" ")
    if p[0] == "backlog":
        if impl.startswith("delivered=short"):
            return "back-pressure: the server closed after sending; the client was given only part of it before Squid closed the client side (%s)" % impl
        if impl.startswith("delivered=all"):
            return None
        return "no usable observation: " + impl[:80]
    mode, cs, sc = p[0], unhx(p[1]), unhx(p[2])
    if impl.startswith("abort") or impl == "bad-op" or impl.startswith("no-200"):
        return "no usable observation: " + impl[:80]
    f = dict(x.split("=", 1) for x in impl.split(" "))
    if f["status"] != "200":
        return "CONNECT answered %s" % f["status"]
    cgot, sgot = unhx(f["c_recv"]), unhx(f["s_recv"])
    if not sc.startswith(cgot):
        return "client received bytes that are not a prefix of what the server sent (inserted/altered data)"
    if not cs.startswith(sgot):
        return "server received bytes that are not a prefix of what the client sent (inserted/altered data)"
    if mode == "clean":
        if cgot != sc:
            return "clean close: client received %d of %d server bytes" % (len(cgot), len(sc))
        if sgot != cs:
            return "clean close: server received %d of %d client bytes" % (len(sgot), len(cs))
    return None


def compare(line, impl, model):
    p = line.split(" ")
    if p[0] == "backlog":
        return impl.split(" ")[0] == model
    if p[0] == "abort":
        return model == "prefix"
    try:
        f = dict(x.split("=", 1) for x in impl.split(" "))
        m = dict(x.split("=", 1) for x in model.split(" "))
    except ValueError:
        return False
    return f.get("c_recv") == m.get("c_recv") and f.get("s_recv") == m.get("s_recv")


def nontrivial(line, impl, model):
    p = line.split(" ")
    if p[0] == "backlog":
        return "rig=" not in (impl or "")
    return p[1] != "-" and p[2] != "-"


def tag(line, impl, model):
    p = line.split(" ")
    if p[0] == "backlog":
        return "backlog " + (impl or "").split(" got=")[0]
    def sz(h):
        n = 0 if h == "-" else len(h) // 2
        return "0" if n == 0 else "<100" if n < 100 else "<16k" if n < 16384 else ">=16k"
    return "%s closer=%s cs=%s sc=%s early=%s" % (p[0], p[6], sz(p[1]), sz(p[2]), "yes" if p[5] != "0" else "no")


MINIMISE_BUDGET = 40
MAX_REPORT = 6


def shrink(line):
    p = line.split(" ")
    if p[0] == "backlog":
        return
    cs, sc = unhx(p[1]), unhx(p[2])
    def mk(cs2, sc2, cc=p[3], scu=p[4], early=p[5], stop=p[7]):
        e = min(int(early), len(cs2))
        st = min(int(stop), len(cs2) if p[6] == "c" else len(sc2))
        return "%s %s %s %s %s %d %s %d" % (p[0], hx(cs2), hx(sc2), cc, scu, e, p[6], st)
    for f in (16, 4, 2):
        if len(cs) >= f:
            yield mk(cs[:len(cs) // f], sc)
        if len(sc) >= f:
            yield mk(cs, sc[:len(sc) // f])
    yield mk(cs, sc, cc="-")
    yield mk(cs, sc, scu="-")
    yield mk(cs, b"")
    yield mk(b"", sc)
