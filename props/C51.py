"""C51 Bounded LRU/TTL map (ClpMap) behaves like its specification."""
import os, subprocess
from vf.util import VERIF
from vf.harness import ProcHarness

ID = "C51"
PROP_MODULE = "SquidModel.Properties.C51"
MODEL = "c51"
GEN = ["clpmap_consts"]
RULE = ("one case = one history `<capacity> <defaultTtl|x> <clock0> op...` on one ClpMap instance (add with explicit / default TTL, get, del, "
        "setMemLimit, clock changes; key lengths and value sizes 0..2^64-1, TTLs INT_MIN..INT_MAX incl. 0 and -1, capacities 0..2^64-1, "
        "clocks 0..time_t max); after every call the harness prints result, memoryUsed(), memLimit(), entries() and the traversal; "
        "non-trivial = the history contains a successful add and (a get that hits, an expiry, or a purge for capacity); distinct = distinct histories")
TRUSTED = ["modelled, not verified: std::list / std::unordered_map as a node list with identities + association list of iterators "
           "(their documented iterator-validity rules: splice keeps, erase invalidates only the erased node)",
           "the harness instantiates the template with its own Key (length() chosen by the case) and Value (MemoryUsedBy chosen by the case)"]
ASSUMPTIONS = ["squid_curtime >= 0 (a negative clock makes NaturalSum fail and the entry immortal: proved as negative_clock_never_expires, "
               "exercised against the model only)", "single thread; Key::length() and MemoryUsedBy() are pure"]
MANIFEST = {
    "text": "full: for every history of add / add-with-default-TTL / get / del / setMemLimit / clock changes from a freshly constructed map "
            "(any capacities, key and value sizes up to 2^64-1, any int TTL, clocks 0..time_t max) the model of ClpMap.h (node list with "
            "identities + iterator index, uint64 wrap-around arithmetic, asserts and dangling iterators as explicit faults, fuel-bounded trim "
            "loop) reaches no fault and produces exactly the observations (results, memoryUsed, entries, traversal) of a reference LRU/TTL/"
            "capacity map; memoryUsed = sum of the accounted sizes <= capacity in every reachable state; capacity victims are exactly a "
            "shortest least-recently-used suffix; the real template runs under ASan/UBSan against the model and against an independent "
            "python reference (dictionary + last-use stamps)",
    "note": "trusted: Lean kernel, translator (sizeof constants and numeric limits printed by the staged harness), harness, python reference; "
            "modelled not verified: the STL containers (node/iterator semantics as documented), PoolingAllocator",
    "technique": "Lean 4 refinement proof (invariant + simulation to a reference map, ghost recency stamps) + ASan differential run + "
                 "independent python reference",
    "engine": "inproc",
}

U64 = (1 << 64) - 1
TIME_MAX = (1 << 63) - 1
INT_MAX = (1 << 31) - 1
INT_MIN = -(1 << 31)
CONSTS = {"entrySize": 48, "indexSize": 24}
MINIMISE_BUDGET = 400
MAX_REPORT = 8


def overhead():
    return CONSTS["entrySize"] + CONSTS["indexSize"]


# ------------------------------------------------------------------------------------------------------------------
# build
# ------------------------------------------------------------------------------------------------------------------
def build_exe(stage):
    if "c51" in getattr(stage, "built", {}):
        return stage.built["c51"]
    objs = [stage.compile(os.path.join(VERIF, "harness", "c51.cc"))]
    exe = stage.link_like("tests/testClpMap", objs, os.path.join(stage.work, "c51"), drop=("-lcppunit",))
    stage.built = getattr(stage, "built", {})
    stage.built["c51"] = exe
    return exe


def read_consts(exe):
    r = subprocess.run([exe, "--dump-consts"], capture_output=True, text=True)
    for line in r.stdout.splitlines():
        p = line.split()
        if len(p) == 2 and p[0] in ("entrySize", "indexSize"):
            try:
                CONSTS[p[0]] = int(p[1])
            except ValueError:
                pass


def build(stage):
    exe = build_exe(stage)
    read_consts(exe)
    return ProcHarness([exe], env={"UBSAN_OPTIONS": "print_stacktrace=0:halt_on_error=1:exitcode=86"})


# ------------------------------------------------------------------------------------------------------------------
# generators
# ------------------------------------------------------------------------------------------------------------------
def fmt(limit, dttl, clock, ops):
    return " ".join([str(limit), "x" if dttl is None else str(dttl), str(clock)] + ops)


def op_add(k, kl, v, vs, ttl):
    return "a:%d:%d:%d:%d:%d" % (k, kl, v, vs, ttl)


def op_addd(k, kl, v, vs):
    return "b:%d:%d:%d:%d" % (k, kl, v, vs)


class Hist:
    """a history under construction; tracks what the generator needs to aim at interesting arguments"""

    def __init__(self, rng, limit, dttl, clock):
        self.rng, self.limit0, self.dttl, self.clock0 = rng, limit, dttl, clock
        self.clock = clock
        self.ops = []
        self.val = 0
        self.ttls = []      # absolute expiry instants seen so far (targets for clock moves)
        self.sizes = []

    def line(self):
        return fmt(self.limit0, self.dttl, self.clock0, self.ops)

    def value(self):
        self.val += 1
        return self.val


def valid_history(rng, tier, nkeys=None, nops=None):
    ov = overhead()
    nkeys = nkeys or rng.choice([1, 2, 3, 3, 4, 5, 8])
    style = rng.below(6)
    if style == 0:     # every entry the same size: capacity = n entries exactly / one byte short
        unit = ov + rng.choice([0, 1, 8, 100])
        limit = unit * rng.range(1, 4) - rng.choice([0, 0, 1])
        sizes = lambda: (0, unit - ov)
    elif style == 1:   # mixed small sizes
        limit = rng.range(ov, ov * 6 + 300)
        sizes = lambda: (rng.range(0, 20), rng.range(0, 120))
    elif style == 2:   # roomy: TTL behaviour dominates
        limit = 1 << rng.range(12, 40)
        sizes = lambda: (rng.range(0, 64), rng.range(0, 4096))
    elif style == 3:   # tiny capacities around one entry
        limit = rng.choice([0, 1, ov - 1, ov, ov + 1, 2 * ov - 1, 2 * ov])
        sizes = lambda: (rng.choice([0, 0, 1]), rng.choice([0, 0, 1, ov]))
    elif style == 4:   # huge capacity, huge accounted sizes
        limit = rng.choice([U64, U64 - 1, 1 << 63, (1 << 63) + rng.range(0, 1000)])
        sizes = lambda: (rng.choice([0, 5, 1 << 62, 1 << 63]), rng.choice([0, 7, 1 << 61, 1 << 62, (1 << 63) - ov]))
    else:
        limit = rng.range(0, ov * 10)
        sizes = lambda: (rng.range(0, ov), rng.range(0, 3 * ov))
    dttl = rng.choice([None, None, 0, 1, 5, 100, INT_MAX])
    clock = rng.choice([0, 1, 1000, 1700000000, rng.range(0, 1 << 40), TIME_MAX - rng.range(0, 300), TIME_MAX - INT_MAX - rng.range(0, 3),
                        TIME_MAX - INT_MAX + rng.range(0, 3)])
    h = Hist(rng, limit, dttl, clock)
    keys = [rng.range(0, 20) for _ in range(nkeys)] if rng.chance(4, 5) else [rng.choice([0, 7, 14, 21, U64, U64 - 7]) for _ in range(nkeys)]
    nops = nops or (rng.range(1, 90) if tier == "thorough" else rng.range(1, 40))
    cur_limit = limit
    for _ in range(nops):
        r = rng.below(100)
        k = rng.choice(keys)
        if r < 40:
            kl, vs = sizes()
            ttl = rng.choice([0, 0, 1, 1, 2, 5, 10, 100, -1, -1, INT_MAX, INT_MIN, rng.range(-3, 30)])
            if ttl >= 0:
                h.ttls.append(h.clock + ttl)
            if rng.chance(1, 6):
                h.ops.append(op_addd(k, kl, h.value(), vs))
                if dttl is not None:
                    h.ttls.append(h.clock + dttl)
            else:
                h.ops.append(op_add(k, kl, h.value(), vs, ttl))
            h.sizes.append(kl + vs + ov)
        elif r < 70:
            h.ops.append("g:%d" % k)
        elif r < 77:
            h.ops.append("x:%d" % k)
        elif r < 85:
            # capacity change: around sums of the sizes in use
            tot = sum(h.sizes[-rng.range(1, 4):]) if h.sizes else ov
            cur_limit = max(0, min(U64, rng.choice([0, cur_limit, cur_limit + 1, max(0, cur_limit - 1), tot, tot + 1, max(0, tot - 1), limit, 2 * limit + 1,
                                                   rng.range(0, ov * 6)])))
            h.ops.append("l:%d" % cur_limit)
        else:
            # clock: mostly forward, aimed at expiry instants (t, t+1), sometimes far
            if h.ttls and rng.chance(2, 3):
                t = rng.choice(h.ttls[-4:]) + rng.choice([0, 1, 1, -1])
                t = max(h.clock, t)
            else:
                t = h.clock + rng.choice([0, 1, 1, 2, 3, 10, 1000, 1 << 32])
            t = min(t, TIME_MAX)
            h.clock = t
            h.ops.append("T:%d" % t)
    return h.line()


def boundary_history(rng, tier):
    """size arithmetic at 2^64, capacity exactly at / one below what is needed, expiry saturation at time_t max"""
    ov = overhead()
    kind = rng.below(7)
    if kind == 0:
        # klen + vsz + overhead around 2^64 - 1 (the four partial sums of NaturalSum)
        tot = U64 - ov + rng.choice([-2, -1, 0, 1, 2])
        kl = rng.choice([0, 1, tot // 2, tot - 1, tot, U64 - CONSTS["entrySize"], U64 - CONSTS["entrySize"] + 1, U64])
        kl = max(0, min(U64, kl))
        vs = max(0, min(U64, tot - kl + rng.choice([0, 0, 1, -1])))
        ops = [op_add(1, 3, 1, 4, 10), op_add(2, kl, 2, vs, 10), "g:2", "g:1", op_add(2, 0, 3, 0, 10), "g:2"]
        return fmt(rng.choice([U64, U64 - 1, U64 - ov]), None, 5, ops)
    if kind == 1:
        # capacity exactly what n entries need, then one byte less
        n = rng.range(1, 4)
        sz = rng.range(0, 50)
        need = n * (ov + sz)
        ops = [op_add(i, 0, i, sz, 100) for i in range(n + 1)] + ["g:0", "g:1", "l:%d" % (need - 1), "g:1", "l:%d" % need, op_add(9, 0, 9, sz, 1), "g:9"]
        return fmt(need, None, 0, ops)
    if kind == 2:
        # expiry exactly at clock + ttl; saturation at time_t max
        t0 = rng.choice([0, 10, TIME_MAX - INT_MAX - 1, TIME_MAX - INT_MAX, TIME_MAX - INT_MAX + 1, TIME_MAX - 1, TIME_MAX])
        ttl = rng.choice([0, 1, 2, INT_MAX, INT_MAX - 1])
        e = t0 + ttl
        ops = [op_add(1, 0, 1, 0, ttl), "g:1"]
        for t in (e - 1, e, e + 1, TIME_MAX):
            if t0 <= t <= TIME_MAX:
                ops += ["T:%d" % t, "g:1"]
        return fmt(1000, None, t0, ops)
    if kind == 3:
        # replace / negative TTL / zero capacity
        ops = [op_add(1, 2, 1, 3, 10), op_add(1, 2, 2, 3, rng.choice([-1, INT_MIN, 0, 5])), "g:1", op_add(1, U64, 3, 0, 5), "g:1", "l:0", op_add(1, 0, 4, 0, 5), "g:1",
               "l:%d" % ov, op_add(1, 0, 5, 0, 5), "g:1", op_add(2, 0, 6, 1, 5), "g:1", "g:2"]
        return fmt(rng.choice([1000, ov + 5, 2 * ov + 10]), rng.choice([None, 0, 3]), rng.choice([0, 100]), ops)
    if kind == 4:
        # recency: touch the oldest, then force exactly one purge
        n = rng.range(2, 6)
        sz = rng.range(0, 9)
        touch = rng.range(0, n - 1)
        ops = [op_add(i, 0, i, sz, 50) for i in range(n)] + ["g:%d" % touch, op_add(99, 0, 99, sz, 50)] + ["g:%d" % i for i in range(n)]
        return fmt(n * (ov + sz) + rng.choice([0, 1, ov + sz - 1]), None, 7, ops)
    if kind == 5:
        # expired entries are not preferred victims (they are purged in LRU order like the others), and get() removes them
        sz = rng.range(0, 5)
        ops = [op_add(1, 0, 1, sz, 100), op_add(2, 0, 2, sz, 0), op_add(3, 0, 3, sz, 100), "T:11", op_add(4, 0, 4, sz, 100), "g:2", "g:1", "g:3", "g:4",
               op_add(5, 0, 5, sz, 0), "T:12", "x:5", "g:5"]
        return fmt(3 * (ov + sz), None, 10, ops)
    # setMemLimit below / at / above the memory in use, growing back
    n = rng.range(1, 5)
    ops = [op_add(i, i, i, 2 * i, 9) for i in range(n)]
    used = sum(ov + 3 * i for i in range(n))
    for lim in (used + 1, used, used - 1, used // 2, 0, U64, used):
        ops += ["l:%d" % max(0, lim), "g:%d" % rng.range(0, n)]
        ops.append(op_add(rng.range(0, n), 1, 77, 1, 9))
    return fmt(used + rng.choice([0, 5]), None, 3, ops)


def mutate(rng, line):
    toks = line.split(" ")
    head, ops = toks[:3], toks[3:]
    if not ops:
        return line
    for _ in range(rng.range(1, 3)):
        m = rng.below(7)
        i = rng.below(len(ops))
        if m == 0:
            ops.insert(i, ops[rng.below(len(ops))])          # duplicate an operation elsewhere
        elif m == 1 and len(ops) > 1:
            del ops[i]
        elif m == 2:
            j = rng.below(len(ops))
            ops[i], ops[j] = ops[j], ops[i]
        elif m == 3:
            f = ops[i].split(":")
            if f[0] in "abgx":                              # retarget to another key
                f[1] = str(rng.range(0, 8))
                ops[i] = ":".join(f)
        elif m == 4:
            f = ops[i].split(":")
            if f[0] == "a":                                 # perturb the TTL
                f[5] = str(max(INT_MIN, min(INT_MAX, int(f[5]) + rng.choice([-1, 1, -int(f[5]) - 1, 1000]))))
                ops[i] = ":".join(f)
        elif m == 5:
            f = ops[i].split(":")
            if f[0] in "ab":                                # perturb a size by one
                q = rng.choice([2, 4])
                f[q] = str(max(0, min(U64, int(f[q]) + rng.choice([-1, 1]))))
                ops[i] = ":".join(f)
        else:
            head[0] = str(max(0, min(U64, int(head[0]) + rng.choice([-1, 1, -overhead(), overhead()]))))
    return " ".join(head + ops)


def scope_alphabet():
    ov = overhead()
    alpha = []
    for k in (1, 2):
        for ttl in (-1, 0, 1):
            for vs in (0, 8):
                alpha.append(op_add(k, 0, k * 10 + vs, vs, ttl))
        alpha.append("g:%d" % k)
        alpha.append("x:%d" % k)
    return alpha + ["l:0", "l:%d" % (ov + 8), "l:%d" % (2 * ov + 8), "T+1", "T+2"]


def scope_line(calls):
    """calls over the small-scope alphabet -> a history on a map that holds two small entries (T+n = advance the clock by n)"""
    clock, ops = 5, []
    for a in calls:
        if a.startswith("T+"):
            clock += int(a[2:])
            ops.append("T:%d" % clock)
        else:
            ops.append(a)
    return fmt(2 * overhead() + 8, None, 5, ops)


def small_scope(maxlen):
    """every history up to `maxlen` calls over the 21-call alphabet"""
    alpha = scope_alphabet()

    def rec(prefix, n):
        yield prefix
        if n:
            for a in alpha:
                yield from rec(prefix + [a], n - 1)
    for calls in rec([], maxlen):
        yield scope_line(calls)


def cases(rng, tier):
    thorough = tier == "thorough"
    yield from small_scope(4 if thorough else 2)
    if not thorough:
        # a sample of the length-3..6 scope
        r2 = rng.fork("scope")
        alpha = scope_alphabet()
        for _ in range(1500):
            yield scope_line([r2.choice(alpha) for _ in range(r2.range(3, 6))])
    nvalid = 30000 if thorough else 2500
    nbound = 6000 if thorough else 700
    nmut = 10000 if thorough else 800
    rv, rb, rm = rng.fork("valid"), rng.fork("boundary"), rng.fork("mutation")
    recent = []
    for i in range(nvalid):
        l = valid_history(rv, tier)
        recent.append(l)
        if len(recent) > 200:
            recent.pop(0)
        yield l
        if i * nbound // nvalid != (i + 1) * nbound // nvalid:
            b = boundary_history(rb, tier)
            recent.append(b)
            yield b
        if i * nmut // nvalid != (i + 1) * nmut // nvalid:
            yield mutate(rm, rm.choice(recent))
    # outside the assumed domain (negative clock): model vs implementation only
    rn = rng.fork("negclock")
    for _ in range(100 if thorough else 20):
        t0 = -rn.range(1, 1000)
        ops = [op_add(1, 0, 1, 0, rn.choice([0, 1, 5])), "g:1", "T:%d" % (t0 + 500), "g:1", "T:%d" % 2000, "g:1", op_add(1, 0, 2, 0, 1), "T:2002", "g:1"]
        yield fmt(1000, None, t0, ops)
    # fully random tokens (the harness and the driver must agree on what is malformed)
    rr = rng.fork("random")
    for _ in range(200 if thorough else 40):
        n = rr.range(0, 6)
        ops = []
        for _ in range(n):
            ops.append(rr.choice(["a:1:2:3:4:5", "a:1:2:3:4", "g:", "g:1:2", "x:-1", "l:18446744073709551616", "l:18446744073709551615", "T:9223372036854775808",
                                  "T:-9223372036854775808", "a:1:1:1:1:2147483648", "a:1:1:1:1:-2147483649", "q:1", "g:1", "b:1:2:3:4", "b:1:2:3:4:5", "a:1:0:-9223372036854775808:0:1"]))
        yield fmt(rr.choice([0, 100, U64]), rr.choice([None, 5, -1, INT_MIN, INT_MAX, INT_MAX + 1]), rr.choice([0, -5, TIME_MAX]), ops)


# ------------------------------------------------------------------------------------------------------------------
# the direct oracle: an independent reference (dictionary + last-use stamps, unbounded integers)
# ------------------------------------------------------------------------------------------------------------------
class BadLine(Exception):
    pass


def parse_line(line):
    tk = line.split()
    if len(tk) < 3:
        raise BadLine()

    def u64(s):
        if not s.isdigit() or len(s) > 20 or int(s) > U64:
            raise BadLine()
        return int(s)

    def i64(s, lo=-(1 << 63), hi=TIME_MAX):
        t = s[1:] if s.startswith("-") else s
        if not t.isdigit() or len(t) > 20:
            raise BadLine()
        v = int(s)
        if v < lo or v > hi:
            raise BadLine()
        return v
    limit = u64(tk[0])
    clock = i64(tk[2])
    dttl = None if tk[1] == "x" else i64(tk[1], INT_MIN, INT_MAX)
    ops = []
    for t in tk[3:]:
        f = t.split(":")
        if f[0] == "a" and len(f) == 6:
            ops.append(("a", u64(f[1]), u64(f[2]), i64(f[3]), u64(f[4]), i64(f[5], INT_MIN, INT_MAX)))
        elif f[0] == "b" and len(f) == 5:
            ops.append(("b", u64(f[1]), u64(f[2]), i64(f[3]), u64(f[4])))
        elif f[0] in ("g", "x") and len(f) == 2:
            ops.append((f[0], u64(f[1])))
        elif f[0] == "l" and len(f) == 2:
            ops.append(("l", u64(f[1])))
        elif f[0] == "T" and len(f) == 2:
            ops.append(("T", i64(f[1])))
        else:
            raise BadLine()
    return limit, dttl, clock, ops


def parse_obs(tok):
    f = tok.split("/")
    if len(f) != 5:
        raise ValueError(tok)
    items = []
    if f[4] != "-":
        for it in f[4].split(","):
            k, rest = it.split("=")
            v, rest = rest.split("@")
            e, m = rest.split("#")
            items.append((int(k), int(v), int(e), int(m)))
    return f[0], int(f[1]), int(f[2]), int(f[3]), items


class RefMap:
    """LRU/TTL/capacity map as a specification: key -> [value, expiry instant (unbounded), accounted size, last-use stamp]"""

    def __init__(self, limit, dttl):
        self.limit = limit
        self.dttl = INT_MAX if dttl is None else dttl
        self.d = {}
        self.tick = 0

    def used(self):
        return sum(e[2] for e in self.d.values())

    def stamp(self):
        self.tick += 1
        return self.tick

    def evict_until(self, room_for, limit):
        while self.d and self.used() + room_for > limit:
            victim = min(self.d, key=lambda k: self.d[k][3])
            del self.d[victim]

    def get(self, k, now):
        e = self.d.get(k)
        if e is None:
            return None
        if now > e[1]:          # hidden (and dropped) after its TTL
            del self.d[k]
            return None
        e[3] = self.stamp()
        return e[0]

    def add(self, k, kl, v, vs, ttl, now):
        self.d.pop(k, None)     # an add always replaces (even a rejected one: the old value must not outlive it)
        if ttl < 0:
            return False
        want = kl + vs + overhead()
        if want > U64 or want > self.limit:
            return False
        self.evict_until(want, self.limit)
        self.d[k] = [v, now + ttl, want, self.stamp()]
        return True

    def delete(self, k):
        self.d.pop(k, None)

    def set_limit(self, n):
        self.evict_until(0, n)
        self.limit = n


def oracle(line, impl):
    if impl.startswith("abort:"):
        return "sanitizer/abort: " + impl
    try:
        limit, dttl, clock, ops = parse_line(line)
    except BadLine:
        return None if impl == "bad-op" else "malformed line accepted: " + impl[:60]
    if dttl is not None and dttl < 0:
        return None if impl == "reject:default-ttl" else "negative default TTL accepted"
    if clock < 0 or any(o[0] == "T" and o[1] < 0 for o in ops):
        return None     # outside the assumed domain
    toks = impl.split(" ")
    if len(toks) != len(ops) + 1:
        return "expected %d observations, got %d" % (len(ops) + 1, len(toks))
    try:
        obs = [parse_obs(t) for t in toks]
    except ValueError:
        return "unparsable output " + impl[:80]
    ref = RefMap(limit, dttl)
    now = clock
    if obs[0][1:] != (0, limit, 0, []):
        return "[op 0] a fresh map is not empty with the requested capacity"
    for n, (op, ob) in enumerate(zip(ops, obs[1:]), 1):
        before = {k: e[3] for k, e in ref.d.items()}
        exp = "-"
        touched = None
        if op[0] == "a" or op[0] == "b":
            ttl = op[5] if op[0] == "a" else ref.dttl
            exp = "1" if ref.add(op[1], op[2], op[3], op[4], ttl, now) else "0"
            touched = op[1]
        elif op[0] == "g":
            r = ref.get(op[1], now)
            exp = "n" if r is None else "v%d" % r
            touched = op[1]
        elif op[0] == "x":
            ref.delete(op[1])
            touched = op[1]
        elif op[0] == "l":
            ref.set_limit(op[1])
        else:
            now = op[1]
        res, used, lim, count, items = ob
        where = "[op %d %s] " % (n, op[0])
        if res != exp:
            return where + "result %s, the reference map gives %s" % (res, exp)
        if used > lim:
            return where + "memoryUsed() exceeds memLimit()"
        if lim != ref.limit:
            return where + "memLimit() is not the capacity set"
        if used != sum(it[3] for it in items):
            return where + "memoryUsed() is not the sum of the accounted entry sizes"
        if count != len(items):
            return where + "entries() differs from the number of traversed entries"
        keys = [it[0] for it in items]
        if len(set(keys)) != len(keys):
            return where + "two entries with the same key"
        # only least-recently-used entries are purged to make room (judged with the oracle's own last-use stamps)
        if op[0] in ("a", "b", "l"):
            gone = [k for k in before if k not in keys and k != touched]
            kept = [k for k in before if k in keys and k != touched]
            if gone and kept and max(before[k] for k in gone) > min(before[k] for k in kept):
                return where + "an entry was purged while a less recently used one was kept"
        elif op[0] in ("g", "x", "T"):
            gone = [k for k in before if k not in keys and k != touched]
            if gone:
                return where + "an entry other than the addressed one disappeared"
        got = sorted((it[0], it[1], it[3]) for it in items)
        want = sorted((k, e[0], e[2]) for k, e in ref.d.items())
        if got != want:
            return where + "stored entries differ from the reference map"
        for it in items:
            if it[2] != min(ref.d[it[0]][1], TIME_MAX):
                return where + "expires is not min(add time + ttl, time_t max)"
        # traversal order = recency order (most recently used first, as testClassicLoopTraversal pins it)
        stamps = [ref.d[k][3] for k in keys]
        if stamps != sorted(stamps, reverse=True):
            return where + "traversal is not in recency order"
    return None


def classify(line, impl, why):
    return None


def nontrivial(line, impl, model):
    toks = impl.split(" ")
    if len(toks) < 2 or "/" not in toks[0]:
        return False
    added = any(t.startswith("1/") for t in toks)
    hit = any(t.startswith("v") for t in toks)
    ops = line.split(" ")[3:]
    shrunk = False
    prev = 0
    for o, t in zip(ops, toks[1:]):
        f = t.split("/")
        if len(f) != 5:
            return False
        c = int(f[3])
        if c < prev and o[0] in "abgl":
            shrunk = True
        prev = c
    return added and (hit or shrunk)


def tag(line, impl, model):
    if not impl or "/" not in impl:
        return impl.split(":")[0] if impl else "?"
    toks = impl.split(" ")
    ops = line.split(" ")[3:]
    n = len(ops)
    size = "0" if n == 0 else "1-4" if n <= 4 else "5-16" if n <= 16 else "17-40" if n <= 40 else ">40"
    feats = set()
    prev = 0
    for o, t in zip(ops, toks[1:]):
        f = t.split("/")
        c = int(f[3]) if len(f) == 5 and f[3].isdigit() else prev
        if o[0] in "ab":
            feats.add("add" if f[0] == "1" else "add-rejected")
            if f[0] == "1" and c < prev + 1:
                feats.add("purge-or-replace")
        if o[0] == "g":
            feats.add("hit" if f[0].startswith("v") else ("expired" if c < prev else "miss"))
        if o[0] == "l" and c < prev:
            feats.add("shrink")
        prev = c
    return "ops=%s %s" % (size, "+".join(sorted(feats)) or "none")


def shrink(line):
    toks = line.split(" ")
    head, ops = toks[:3], toks[3:]
    n = len(ops)
    step = max(1, n // 2)
    while step >= 1 and n:
        for off in range(0, n, step):
            yield " ".join(head + ops[:off] + ops[off + step:])
        step //= 2


def exhaustive(tier):
    return True   # all histories of <= 2 (quick) / <= 4 (thorough) calls over the 21-call small-scope alphabet
