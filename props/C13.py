"""C13 Vary: a stored variant is served only to matching requests (end to end + in-process mark construction)."""
import os, re, threading
from concurrent.futures import ThreadPoolExecutor
from vf.util import VERIF, hx, unhx
from vf.harness import ProcHarness

ID = "C13"
PROP_MODULE = "SquidModel.Properties.C13"
MODEL = "c13"
GEN = ["vary_escape", "vary_headers"]
RULE = ("S: scenario = a sequence of GET requests for one URL through the rebuilt squid (request header lines, Cache-Control: no-cache or not) "
        "x the origin's answer to each (Vary lines: case/order/repeats/spacing/*/malformed, validator or not); observed per request: origin "
        "contacted or which stored body came back, plus the vary marks of the public entries (mgr:objects). "
        "P: two (Vary, request headers) pairs through the real assembleVaryKey in-process (ASan/UBSan): both marks; K/G/I/E: one mark / "
        "getByName / strListGetItem items / rfc1738_escape_part. non-trivial = S with a cache hit or two stored variants, P/K with a "
        "non-empty mark, other ops always; distinct = distinct lines")
TRUSTED = ["modelled, not verified: Comm I/O, HTTP parsing of requests and replies (tied by other properties), freshness (scenarios keep every "
           "stored reply fresh; only ENTRY_REVALIDATE_ALWAYS is modelled), MD5 (the key is modelled as its preimage), memory-cache replacement "
           "(no eviction at this size), the header update on a 304 (the origin stub's 304 carries only Date)",
           "harness/c13.cc replicates the 3-line wrapper httpMakeVaryMark (getList(VARY) + assembleVaryKey) around the verbatim staged text "
           "of assembleVaryKey; the S scenarios run the real wrapper inside squid"]
ASSUMPTIONS = ["default configuration (memory cache only, neighbors_do_private_keys = 1, X_ACCELERATOR_VARY = 0, no collapsed forwarding), "
               "GET requests of one client at a time per URL, origin Date never goes back, header values without NUL",
               "S scenarios never nominate the headers the rig itself adds (Host, Connection)"]
MANIFEST = {
    "engine": "e2e",
    "text": "partial: for every history of requests and origin answers (any length) the store model serves a stored reply without contacting the "
            "origin only if the mark of the current request equals the mark the reply was stored with (hit_marks_equal; likewise after a 304 "
            "revalidation: revalidated_marks_equal) and never when its Vary contains * (star_never_hit); marks are injective: equal marks of token-named Vary lists imply the same nominated names and, for "
            "every nominated name, equal RFC 9110 combined field values, absent distinct from empty, all field lines counted "
            "(mark_injective_clean, combinedByName_eq_fieldValue; mark_injective_same_list for arbitrary member octets), hence the headline "
            "served_only_to_matching_requests for every history whose Vary members contain no , = \" (every token); without that "
            "hypothesis the statement is false: a Vary member that is not a token can collide with a name=\"value\" pair "
            "(nontoken_member_counterexample, confirmed end to end: known finding). Two further defects found by this check are fixed "
            "in /repo (a1b669e non-list headers: first line only / empty = absent; 43aac5c VT-only element ends the list) and kept as "
            "regression theorems and corpus cases. The model (strListGetItem, "
            "getByName, rfc1738_escape_part with regenerated tables, assembleVaryKey, varyEvaluateMatch, cacheHit dispatch incl. "
            "revalidation with a 200 or 304 answer, haveParsedReplyHeaders/adjustVary) is tied to the verbatim staged assembleVaryKey in-process under ASan and to the rebuilt "
            "binary by scenario correspondence; not exhibited by the model: socket I/O, real freshness arithmetic, MD5, eviction, concurrency "
            "between clients of one URL",
    "note": "trusted: Lean kernel, python rig (origin/client stubs), loopback TCP, mgr:objects report; not modelled: see text",
    "technique": "Lean 4 proof (induction over histories with a store invariant; parsing-style injectivity of the mark; decide over regenerated "
                 "tables) + translators + in-process ASan differential run + end-to-end scenario correspondence with a direct oracle",
}

UNDER_TEST = ["src/StrList.cc", "src/String.cc", "src/HttpHeader.cc", "src/sbuf/SBuf.cc"]


def extract_assemble(stage):
    """verbatim text of the file-static assembleVaryKey() of the staged src/http.cc"""
    text = stage.read("src/http.cc")
    m = re.search(r"^static void\nassembleVaryKey\(.*?^}\n", text, re.S | re.M)
    if not m:
        from vf.stage import BuildError
        raise BuildError("assembleVaryKey not found in staged src/http.cc")
    return m.group(0)


def build_exe(stage):
    built = getattr(stage, "built", None)
    if built is None:
        built = stage.built = {}
    if "c13" in built:
        return built["c13"]
    inc = os.path.join(stage.work, "c13inc")
    os.makedirs(inc, exist_ok=True)
    with open(os.path.join(inc, "c13_assemble.inc"), "w") as f:
        f.write(extract_assemble(stage))
    with ThreadPoolExecutor(max_workers=8) as ex:
        main = ex.submit(stage.compile, os.path.join(VERIF, "harness", "c13.cc"), extra=["-I" + inc, "-fno-sanitize=vptr"])
        rest = [ex.submit(stage.compile, s, extra=["-fno-sanitize=vptr"]) for s in UNDER_TEST]
        objs = [main.result()] + [r.result() for r in rest]
    exe = stage.link_like("tests/testHttpRequest", objs, os.path.join(stage.work, "c13"),
                          drop=("tests/testHttpRequestMethod.o", "StrList.o", "String.o", "HttpHeader.o"))
    built["c13"] = exe
    return exe


# ---------------------------------------------------------------------------------------------- line syntax

def enc_hdrs(hdrs):
    return ",".join("%s:%s" % (hx(n), hx(v)) for n, v in hdrs) if hdrs else "."


def dec_hdrs(s):
    if s == ".":
        return []
    out = []
    for tok in s.split(","):
        n, v = tok.split(":")
        out.append((unhx(n), unhx(v)))
    return out


def enc_list(vs):
    return ",".join(hx(v) for v in vs) if vs else "."


def dec_list(s):
    return [] if s == "." else [unhx(x) for x in s.split(",")]


def enc_step(hdrs, vary, flags):
    return "%s/%s/%s" % (enc_hdrs(hdrs), enc_list(vary), flags or "-")


def dec_step(tok):
    hs, vs, fl = tok.split("/")
    return dec_hdrs(hs), dec_list(vs), fl


def s_line(steps):
    return "S " + " ".join(enc_step(*s) for s in steps)


# ---------------------------------------------------------------------------------------------- end-to-end harness

class E2E:
    """Scenarios through the staged squid: W instances side by side, each restarted after ROTATE scenarios so that the
    mgr:objects report stays small."""
    W = 6
    ROTATE = 60
    # read_ahead_gap: with the default (16 KB) the mgr:objects report of this build stalls once it exceeds ~85 KB
    # (statObjects defers on checkDeferRead and is never resumed); the directive only paces reading from servers
    CONF = "read_ahead_gap 64 MB\n"

    def __init__(self, stage):
        from e2e import rig
        self.rig = rig
        self.stage = stage
        self.origin = rig.Origin()
        self.slots = [{"squid": None, "n": 0, "lock": threading.Lock()} for _ in range(self.W)]
        self.n = 0
        self.lock = threading.Lock()
        self.crashes = 0
        self.current = {}   # sid -> (vary lines, flags) of the step in flight
        self.died = []

    def fresh_squid(self, slot):
        """(re)start the slot's squid. Only ever called while no scenario thread is running: subprocess with a
        preexec_fn forks the interpreter, and a fork taken while other threads hold locks can hang the child."""
        if slot["squid"] is not None:
            if not slot["squid"].alive():
                self.died.append(slot["squid"].problems()[:3])
            slot["squid"].stop(kill=True)
        slot["squid"] = None
        for attempt in range(6):
            sq = self.rig.Squid(self.stage, conf=self.CONF)
            try:
                slot["squid"] = sq.start(wait=40.0)
                break
            except RuntimeError:
                # the rig picks a free port before squid binds it: another process may take it in between
                sq.stop(kill=True)
                if attempt == 5:
                    raise
        slot["n"] = 0

    def prepare(self, nlines):
        """main thread, before a batch: every slot gets a live squid with room for its share of the batch"""
        share = (nlines + self.W - 1) // self.W
        for slot in self.slots:
            sq = slot["squid"]
            if sq is None or not sq.alive() or slot["n"] + share > 2 * self.ROTATE:
                self.fresh_squid(slot)

    def handler(self, sid):
        def h(req):
            vary, flags, idx = self.current[sid]
            if "m" in flags and (self.rig.hget(req["hdrs"], "if-modified-since") or self.rig.hget(req["hdrs"], "if-none-match")):
                return [("send", ("HTTP/1.1 304 Not Modified\r\nDate: %s\r\n\r\n" % self.rig.date_now()).encode())]
            hs = [("Cache-Control", "max-age=100000")]
            if "l" in flags:
                hs.append(("Last-Modified", "Mon, 01 Jan 2024 00:00:00 GMT"))
            head = ["HTTP/1.1 200 OK", "Date: " + self.rig.date_now()] + ["%s: %s" % kv for kv in hs]
            body = b"v%d" % idx
            raw = ("\r\n".join(head) + "\r\n").encode("latin-1")
            for v in vary:
                raw += b"Vary: " + v + b"\r\n"
            raw += b"Content-Length: %d\r\n\r\n" % len(body) + body
            return [("send", raw)]
        return h

    def one(self, line):
        try:
            toks = line.split(" ")
            assert toks[0] == "S" and len(toks) > 1
            steps = [dec_step(t) for t in toks[1:]]
        except (ValueError, AssertionError):
            return "bad-op"
        with self.lock:
            self.n += 1
            k = self.n
        slot = self.slots[k % self.W]
        with slot["lock"]:
            sq = slot["squid"]
            if sq is None or not sq.alive():
                return "abort:squid-unavailable"      # it died in an earlier scenario of this batch (reported there)
            slot["n"] += 1
            sid = "c%d" % k
            self.origin.on(sid, self.handler(sid))
            url = self.origin.url(sid, "p")
            obs = []
            for i, (hdrs, vary, flags) in enumerate(steps):
                self.current[sid] = (vary, flags, i)
                before = len(self.origin.requests(sid))
                raw = ("GET %s HTTP/1.1\r\nHost: 127.0.0.1:%d\r\n" % (url, self.origin.port)).encode()
                for n, v in hdrs:
                    raw += n + b": " + v + b"\r\n"
                if "n" in flags:
                    raw += b"Cache-Control: no-cache\r\n"
                raw += b"Connection: close\r\n\r\n"
                r = None
                for attempt in range(4):
                    try:
                        c = self.rig.Client(sq.port)
                        c.send(raw)
                        r = c.response()
                        c.close()
                        break
                    except OSError:
                        # refused/reset: squid gone (reported below) or the machine is overloaded (try again)
                        if not sq.alive():
                            break
                        import time
                        time.sleep(0.3 * self.rig.VERIF_SLOW)
                after = len(self.origin.requests(sid))
                if not sq.alive():
                    self.crashes += 1
                    why = " ".join(sq.problems()[:2]).replace(" ", "_")[:200]
                    return "abort:squid-died " + why
                if r is None or not r["complete"]:
                    obs.append("noresp")
                    continue
                m = re.fullmatch(rb"v(\d+)", r["body"])
                if r["status"] != 200 or not m:
                    obs.append("e%d" % r["status"])
                    continue
                j = int(m.group(1))
                if after == before + 1 and j == i:
                    obs.append("o")
                elif after == before and j < i:
                    obs.append("h%d" % j)
                elif after == before + 1 and j < i and "m" in flags:
                    obs.append("r%d" % j)     # origin asked (it answered 304), stored body of request j delivered
                else:
                    obs.append("x%d+%d" % (j, after - before))
            # the public entries of this URL as the cache manager reports them
            try:
                r = self.rig.get(sq.port, "http://verif.squid.test:%d/squid-internal-mgr/objects" % sq.port)
            except OSError:
                r = None
            if r is None or r["status"] != 200 or not r["complete"]:
                return " ".join(obs) + " ; mgr-unavailable"
            marks, base = [], 0
            needle = b"\tGET " + url.encode() + b"\n"
            for blk in (b"\n" + r["body"]).split(b"\nKEY ")[1:]:
                if needle not in blk:
                    continue
                lines = blk.split(b"\n")
                flagline = lines[2] if len(lines) > 2 else b""
                if b"PRIVATE" in flagline:
                    continue
                mk = [l[len(b"\tvary_headers: "):] for l in lines if l.startswith(b"\tvary_headers: ")]
                if mk:
                    marks.append(hx(mk[0]))
                else:
                    base += 1
            self.origin.handlers.pop(sid, None)
            self.current.pop(sid, None)
            with self.origin.lock:
                self.origin.seen.pop(sid, None)
            return " ".join(obs) + " ; marks=" + (",".join(sorted(marks)) if marks else ".") + " base=%d" % base

    def run(self, lines):
        out = []
        batch = self.W * self.ROTATE
        try:
            for a in range(0, len(lines), batch):
                part = lines[a:a + batch]
                self.prepare(len(part))
                with ThreadPoolExecutor(max_workers=self.W) as ex:
                    res = list(ex.map(self.one, part))
                # scenarios that met a dead squid run again on fresh instances (the one that killed it keeps its abort)
                redo = [i for i, o in enumerate(res) if o == "abort:squid-unavailable"]
                if redo:
                    self.prepare(len(redo))
                    with ThreadPoolExecutor(max_workers=self.W) as ex:
                        for i, o in zip(redo, ex.map(self.one, [part[i] for i in redo])):
                            res[i] = o
                out += res
            return out
        except BaseException:
            self.close()     # never leave squid processes behind
            raise

    def close(self):
        for s in self.slots:
            if s["squid"] is not None:
                s["squid"].stop(kill=True)
                s["squid"] = None
        self.origin.close()


class Both:
    """S lines go through squid, everything else through the in-process harness; a failed S oracle is re-run (flake guard)."""

    def __init__(self, stage):
        self.proc = ProcHarness([build_exe(stage)])
        self.e2e = E2E(stage)

    @property
    def crashes(self):
        return self.proc.crashes + self.e2e.crashes

    def run(self, lines):
        si = [i for i, l in enumerate(lines) if l.startswith("S ")]
        pi = [i for i, l in enumerate(lines) if not l.startswith("S ")]
        out = [None] * len(lines)
        for i, o in zip(pi, self.proc.run([lines[i] for i in pi])):
            out[i] = o
        for i, o in zip(si, self.e2e.run([lines[i] for i in si])):
            out[i] = o
        # flake guard: an observation the property oracle rejects must reproduce twice more before it is reported
        for i in si:
            if oracle(lines[i], out[i]):
                again = self.e2e.run([lines[i], lines[i]])
                for o in again:
                    if not oracle(lines[i], o):
                        out[i] = o
                        break
        return out

    def close(self):
        self.e2e.close()


def build(stage):
    return Both(stage)


# ---------------------------------------------------------------------------------------------- independent reference notions (RFC 9110/9111)

TCHAR = frozenset(b"!#$%&'*+-.^_`|~0123456789abcdefghijklmnopqrstuvwxyzABCDEFGHIJKLMNOPQRSTUVWXYZ")
# registered in Squid as non-list headers (src/http/RegisteredHeadersHash.gperf rows without ListHeader) that the generators use
NONLIST = [b"User-Agent", b"Cookie", b"Referer", b"From", b"Content-Type"]
LISTH = [b"Accept", b"Accept-Encoding", b"Accept-Language", b"Accept-Charset"]
OTHERH = [b"X-A", b"X-B", b"Foo", b"x-device", b"X-Requested-With"]


def is_token(b):
    return len(b) > 0 and all(c in TCHAR for c in b)


def vary_members(lines):
    """members of the Vary field per RFC 9110 5.6.1 (#element: comma separated, OWS trimmed, empty elements ignored)"""
    out = []
    for l in lines:
        for m in l.split(b","):
            m = m.strip(b" \t")
            if m:
                out.append(m)
    return out


def field_value(hdrs, name):
    """combined field value (RFC 9110 5.3): None when the field is absent, else its field line values joined with ', ';
    empty field lines before the first non-empty one contribute nothing (an empty list element, RFC 9110 5.6.1.2)"""
    vs = [v for n, v in hdrs if n.lower() == name.lower()]
    if not vs:
        return None
    while vs and vs[0] == b"":
        vs = vs[1:]
    return b", ".join(vs)


def mismatch(members, h1, h2):
    """names nominated by `members` on which the two requests do not match"""
    return [m for m in members if field_value(h1, m) != field_value(h2, m)]


def parse_s(line):
    return [dec_step(t) for t in line.split(" ")[1:]]


def s_hits(impl, kinds="h"):
    """[(i, j)] request i got the body stored for request j: 'h' without an origin contact, 'r' after a 304 from the origin"""
    res = []
    for i, o in enumerate(impl.split(" ; ")[0].split(" ")):
        if re.fullmatch(r"[%s]\d+" % kinds, o):
            res.append((i, int(o[1:])))
    return res


def req_headers(step):
    hdrs, vary, flags = step
    return hdrs + ([(b"Cache-Control", b"no-cache")] if "n" in flags else [])


def oracle(line, impl):
    op = line.split(" ")[0]
    if impl is None or impl.startswith("abort") or impl == "bad-op":
        return "no usable observation: %s" % impl
    if op == "S":
        steps = parse_s(line)
        obs = impl.split(" ; ")[0].split(" ")
        if len(obs) != len(steps) or any(not re.fullmatch(r"o|[hr]\d+", o) for o in obs):
            return "unexpected observation " + impl[:120]
        for i, j in s_hits(impl, "hr"):
            members = vary_members(steps[j][1])
            if obs[i][0] == "h" and any(m == b"*" for m in members):
                return "request %d was served the reply stored for request %d whose Vary contains * without contacting the origin" % (i, j)
            if any(m == b"*" for m in members):
                continue   # r<j> under Vary: *: the origin itself was asked and answered 304 for this very request
            bad = mismatch(members, req_headers(steps[i]), req_headers(steps[j]))
            if bad:
                return "request %d was served the variant stored for request %d although they differ in nominated header(s) %s" % (
                    i, j, ",".join(sorted(set(b.decode("latin-1").lower() for b in bad))))
        return None
    if op == "P":
        _, v1, h1, v2, h2 = line.split(" ")
        m = re.fullmatch(r"m1=(\S+) m2=(\S+)", impl)
        if not m:
            return None if impl.startswith("reject:") else "unparsable output " + impl[:80]
        if m.group(1) != m.group(2) or m.group(1) == "-":
            return None
        mem1, mem2 = vary_members(dec_list(v1)), vary_members(dec_list(v2))
        if b"*" in mem1 or b"*" in mem2:
            return None     # never served: the S scenarios check that
        r1, r2 = dec_hdrs(h1), dec_hdrs(h2)
        bad = mismatch(mem1, r1, r2) + mismatch(mem2, r1, r2)
        if bad:
            return "equal marks for requests that differ in nominated header(s) %s" % ",".join(sorted(set(b.decode("latin-1").lower() for b in bad)))
        return None
    if op == "E":
        if impl.startswith("reject:"):
            return None
        s, out = unhx(line.split(" ")[1]), unhx(impl)
        # escaping must be reversible and never emit a double quote (the mark's value delimiter)
        if b'"' in out:
            return "escaped value contains a double quote"
        dec = re.sub(rb"%([0-9A-Fa-f]{2})", lambda m: bytes([int(m.group(1), 16)]), out)
        if dec != s:
            return "unescaping the escaped value does not return the value"
        if re.sub(rb"%[0-9A-F]{2}", b"", out).find(b"%") != -1:
            return "a raw % survives escaping"
    return None


def classify(line, impl, why):
    """C13-nontoken-vary-member: a served/colliding pair differs in a nominated header AND some Vary in play has a member that is
    not a token and spells name="value". (C13-nonlist-first-line and C13-vt-element-ends-list are fixed in /repo: a1b669e, 43aac5c;
    their witnesses in corpus/C13 are regression cases that must pass.)"""
    op = line.split(" ")[0]
    pairs = []
    if op == "S":
        steps = parse_s(line)
        for i, j in s_hits(impl, "hr"):
            members = vary_members(steps[j][1])
            if any(m == b"*" for m in members):
                return None
            if mismatch(members, req_headers(steps[i]), req_headers(steps[j])):
                pairs.append((i, j))
        all_members = [m for s in steps for m in vary_members(s[1])]
    elif op == "P":
        _, v1, h1, v2, h2 = line.split(" ")
        mem1, mem2 = vary_members(dec_list(v1)), vary_members(dec_list(v2))
        r1, r2 = dec_hdrs(h1), dec_hdrs(h2)
        if mismatch(mem1, r1, r2) + mismatch(mem2, r1, r2):
            pairs.append((1, 2))
        all_members = mem1 + mem2
    else:
        return None
    if not pairs or "differ in nominated header" not in (why or ""):
        return None
    if any((not is_token(m)) and b'="' in m for m in all_members):
        return "C13-nontoken-vary-member"
    return None


# ---------------------------------------------------------------------------------------------- generators

VALUES = [b"a", b"b", b"gzip", b"gzip, br", b"gzip,br", b"en-US,en;q=0.9", b"", b"a b", b'a"b', b"a%22b", b"100%", b"%", b'"', b'a", x-b="c',
          b"a, b", b"a,b", b"=", b'="', b"x=1; y=2", b"\xe9t\xe9", b"\xff", b"a\tb", b"a\x01b", b"\x7f", b"*", b"a=\"b\"", b"~{}|\\^[]`'<>#",
          b";/?:@=&", b"Mozilla/5.0 (X11; Linux x86_64)", b"a%20b", b"A", b"a ", b"0", b"a,", b",a"]
SAFE_VALUES = [b"a", b"b", b"gzip", b"gzip, br", b"en-US,en;q=0.9", b"a b", b'a"b', b"100%", b"a, b", b"a,b", b"x=1; y=2", b"\xe9t\xe9", b'a", x-b="c', b"a%22b", b"A", b"%", b'"']


def case_mix(rng, b):
    return bytes((c ^ 0x20) if (65 <= (c & ~0x20) <= 90 and rng.chance(1, 2)) else c for c in b)


def gen_vary_lines(rng, names, weird=False):
    """render a list of member names as Vary field lines: random case, separators, repeats, line splits"""
    ms = [case_mix(rng, n) for n in names]
    if ms and rng.chance(1, 6):
        ms.insert(rng.below(len(ms) + 1), rng.choice(ms))          # repeated name
    lines, cur = [], []
    for m in ms:
        cur.append(m)
        if rng.chance(1, 5):
            lines.append(cur)
            cur = []
    if cur or not lines:
        lines.append(cur)
    seps = [b", ", b",", b" , ", b",  ", b" ,", b",\t", b", ,", b",,"]
    out = []
    for l in lines:
        s = b""
        for k, m in enumerate(l):
            if k:
                s += rng.choice(seps)
            s += m
        if weird and rng.chance(1, 4):
            s = rng.choice([b",", b", ", b""]) + s + rng.choice([b",", b" ,", b""])
        out.append(s.strip(b" \t"))
    return out


def gen_hdrs(rng, names, values, dup=True):
    hdrs = []
    for n in names:
        k = rng.below(8)
        if k == 0:
            continue                                   # absent
        hdrs.append((case_mix(rng, n) if rng.chance(1, 3) else n, rng.choice(values)))
        if dup and rng.chance(1, 8):
            hdrs.append((n, rng.choice(values)))       # a second field line
    if rng.chance(1, 3):
        rng.shuffle(hdrs)
    return hdrs


ODD_VARY = [b"*", b"x-a, *", b"*, x-a", b"* ", b"**", b'"*"', b"x-a,*,x-b", b"", b",", b", ,", b'"x-a, x-b"', b'x-a="a"', b'x-a="a", x-b', b'"x-a', b'x-a"',
            b'"a\\"b", x-a', b'"a\\', b"x-a\x0b", b"\x0b", b"\x0b, x-a", b"x-a \x0c", b"x-a\r\nx", b"x a", b"x-a;q=1", b"x-a=", b'x-a=""', b"x-a, x-a",
            b"X-A", b"accept-encoding,\tUser-Agent", b"cookie", b"\xe9", b"x-a\\, x-b", b'x-a="a\\", x-b', b"a" * 300]


def gen_k(rng, tier):
    pool = OTHERH + LISTH + NONLIST
    n = 6000 if tier == "thorough" else 700
    for i in range(n):
        k = rng.below(10)
        names = [rng.choice(pool) for _ in range(rng.range(1, 3))]
        if k <= 4:      # valid token lists, collisions sought between two requests under one list
            vary = gen_vary_lines(rng, names)
            vals = rng.choice([VALUES, VALUES[:6], [b"a", b"", b"a, b", b"a,b", b"b"]])
            h1 = gen_hdrs(rng, names + [rng.choice(pool)], vals)
            if rng.chance(1, 2):
                h2 = gen_hdrs(rng, names + [rng.choice(pool)], vals)
            else:       # mutate h1: one value changed / one line dropped / a line split in two / case of a name
                h2 = list(h1)
                if h2:
                    j = rng.below(len(h2))
                    m = rng.below(5)
                    if m == 0:
                        h2[j] = (h2[j][0], rng.choice(vals))
                    elif m == 1:
                        del h2[j]
                    elif m == 2 and b", " in h2[j][1]:
                        a, b = h2[j][1].split(b", ", 1)
                        h2[j:j + 1] = [(h2[j][0], a), (h2[j][0], b)]
                    elif m == 3:
                        h2[j] = (case_mix(rng, h2[j][0]), h2[j][1])
                    else:
                        h2.append((h2[j][0], rng.choice(vals)))
            yield "P %s %s %s %s" % (enc_list(vary), enc_hdrs(h1), enc_list(vary), enc_hdrs(h2))
        elif k == 5:    # two different lists over the same names (order, case, repeats) or overlapping names
            names2 = list(names)
            if rng.chance(1, 2):
                rng.shuffle(names2)
            if rng.chance(1, 3):
                names2.append(rng.choice(pool))
            h1 = gen_hdrs(rng, names, VALUES[:8])
            h2 = gen_hdrs(rng, names2, VALUES[:8]) if rng.chance(1, 2) else h1
            yield "P %s %s %s %s" % (enc_list(gen_vary_lines(rng, names)), enc_hdrs(h1), enc_list(gen_vary_lines(rng, names2, weird=True)), enc_hdrs(h2))
        elif k == 6:    # a value that imitates the next pair against two real pairs
            a, b = rng.choice(OTHERH), rng.choice(OTHERH)
            v, w = rng.choice([b"a", b"b"]), rng.choice([b"c", b""])
            fake = v + b'", ' + b.lower() + b'="' + w
            yield "P %s %s %s %s" % (enc_list([a + b", " + b]), enc_hdrs([(a, fake)]), enc_list([a + b", " + b]), enc_hdrs([(a, v), (b, w)]))
            yield "P %s %s %s %s" % (enc_list([a]), enc_hdrs([(a, fake)]), enc_list([a + b", " + b]), enc_hdrs([(a, v), (b, w)]))
            if rng.chance(1, 40):  # a member that is not a token and spells name="value" (known finding territory; a few per run)
                yield "P %s %s %s %s" % (enc_list([a.lower() + b'="' + v + b'", ' + b]), enc_hdrs([]), enc_list([a + b", " + b]), enc_hdrs([(a, v)]))
        elif k == 7:    # malformed / boundary lists
            vary = [rng.choice(ODD_VARY)] + ([rng.choice(ODD_VARY)] if rng.chance(1, 4) else [])
            yield "K %s %s" % (enc_list(vary), enc_hdrs(gen_hdrs(rng, OTHERH[:2], VALUES[:8])))
            yield "I " + hx(b", ".join(vary))
        elif k == 8:    # mutations of a valid field: flips, truncation, duplication, splices with quotes
            s = bytearray(b", ".join(gen_vary_lines(rng, names)))
            for _ in range(rng.range(1, 3)):
                m = rng.below(4)
                if not s:
                    break
                j = rng.below(len(s))
                if m == 0:
                    s[j] = rng.choice(b'",\\ *=\t\x0b\xe9a')
                elif m == 1:
                    del s[j:]
                elif m == 2:
                    s[j:j] = s[j:j + 3]
                else:
                    s[j:j] = rng.choice([b'"', b'\\"', b'="a"', b", ", b"*"])
            s = bytes(s).replace(b"\0", b"a")
            yield "K %s %s" % (enc_list([s]), enc_hdrs(gen_hdrs(rng, names, VALUES[:10])))
            yield "I " + hx(s)
        else:           # getByName and the escaper directly
            nm = rng.choice(pool)
            yield "G %s %s" % (hx(case_mix(rng, nm)), enc_hdrs(gen_hdrs(rng, [nm, nm, rng.choice(pool)], [b"", b"a", b"b", b"a, b"])))
            yield "E " + hx(bytes(rng.range(1, 255) for _ in range(rng.range(0, 24))))


def gen_small(tier):
    """exhaustive small scopes"""
    for b in range(1, 256):
        yield "E " + hx(bytes([b]))
    alpha = b'a,"\\ *=\x0b'
    maxlen = 5 if tier == "thorough" else 3
    h = enc_hdrs([(b"a", b"1"), (b"aa", b'2"'), (b"*", b"3")])

    def rec(prefix, n):
        if n == 0:
            yield prefix
            return
        for c in alpha:
            yield from rec(prefix + bytes([c]), n - 1)
    for n in range(0, maxlen + 1):
        for s in rec(b"", n):
            yield "I " + hx(s)
            if n <= (4 if tier == "thorough" else 3):
                yield "K %s %s" % (enc_list([s]), h)
    # every pair of requests over a tiny value set, two names, one list: all collisions of this scope
    vals = [None, b"", b"a", b'a"', b'a", y="b', b"b"] if tier == "thorough" else [None, b"", b"a", b'a", y="b']
    reqs = [[(n, v) for n, v in ((b"x", vx), (b"y", vy)) if v is not None] for vx in vals for vy in vals]
    for r1 in reqs:
        for r2 in reqs:
            yield "P %s %s %s %s" % (enc_list([b"x, y"]), enc_hdrs(r1), enc_list([b"x, y"]), enc_hdrs(r2))


def gen_s(rng, tier):
    n = 2500 if tier == "thorough" else 260
    for i in range(n):
        kind = rng.choice([0, 1, 2, 3, 4, 5, 6, 7, 8, 9, 10, 12]) if not rng.chance(1, 60) else 11
        pool = OTHERH[:3] + LISTH[:2] + ([rng.choice(NONLIST)] if rng.chance(1, 4) else [])
        names = []
        for _ in range(rng.range(1, 2)):
            c = rng.choice(pool)
            if c not in names:
                names.append(c)
        vals = [rng.choice(SAFE_VALUES) for _ in range(2)] + ([b""] if rng.chance(1, 3) else [])
        steps = []
        nsteps = rng.range(3, 7)
        if kind <= 5:       # one family of lists (same names; case/order/spacing vary per response)
            for _ in range(nsteps):
                hdrs = gen_hdrs(rng, names, vals, dup=rng.chance(1, 4))
                steps.append((hdrs, gen_vary_lines(rng, rng.shuffle(list(names))), ("n" if rng.chance(1, 10) else "") + ("l" if rng.chance(1, 4) else "")))
        elif kind == 6:     # Vary: * (alone, inside lists), with and without a validator
            star = rng.choice([[b"*"], [b"x-a, *"], [b"*, x-a"], [b"x-a", b"*"], [b"*,*"]])
            for _ in range(nsteps):
                v = star if rng.chance(4, 5) else gen_vary_lines(rng, names)
                steps.append((gen_hdrs(rng, names, vals[:2], dup=False), v, ("l" if rng.chance(1, 2) else "") + ("m" if rng.chance(1, 2) else "")))
        elif kind == 7:     # the list changes between responses / disappears / comes back
            alt = [rng.choice(pool)]
            for _ in range(nsteps):
                m = rng.below(4)
                v = gen_vary_lines(rng, names) if m <= 1 else (gen_vary_lines(rng, alt) if m == 2 else [])
                steps.append((gen_hdrs(rng, names + alt, vals, dup=False), v, "n" if rng.chance(1, 6) else ""))
        elif kind == 8:     # empty and delimiter-only fields, odd members
            odd = rng.choice([[b""], [b","], [b", ,"], [b"", b"x-a"], [b'"x-a, x-b"'], [b"x-a \x0c, x-b"], [b"x-a, \x0b, x-b"], [b"x-a,\x0c\x0b,x-b"], [b"x-a;q=1"], [b"x a"], [b'"x-a'], [b"x-a, x-a"], [b"\xe9"]])
            for _ in range(nsteps):
                steps.append((gen_hdrs(rng, [b"X-A", b"X-B"], vals[:2], dup=False), odd if rng.chance(3, 4) else gen_vary_lines(rng, [b"X-A"]), ""))
        elif kind == 9:     # values that imitate mark syntax
            a, b = b"X-A", b"X-B"
            fake = b'a", x-b="c'
            cands = [[(a, fake)], [(a, b"a"), (b, b"c")], [(a, b"a")], [(a, b'a"'), (b, b"c")], [(a, b"a%22, x-b=%22c")], []]
            for _ in range(nsteps):
                steps.append((rng.choice(cands), rng.choice([[b"x-a, x-b"], [b"X-A", b"X-B"], [b"x-a,x-b"]]), ""))
        elif kind == 10:    # registered non-list headers: repeated lines, empty values (wrong before /repo a1b669e)
            h = rng.choice(NONLIST)
            cands = [[(h, b"a")], [(h, b"a"), (h, b"b")], [(h, b"a"), (h, b"c")], [(h, b"")], [], [(h, b"b")], [(h, b""), (h, b"a")]]
            for _ in range(nsteps):
                steps.append((rng.choice(cands), [case_mix(rng, h)], ""))
        elif kind == 12:    # an element made of VT only (ended strListGetItem's iteration before /repo 43aac5c)
            for _ in range(nsteps):
                steps.append((gen_hdrs(rng, [b"X-A", b"X-B"], [b"a", b"b"], dup=False), [b"x-a, \x0b, x-b"], ""))
        else:               # kind 11: a member that is not a token and looks like name="value" (known finding territory)
            seq = [([(b"X-A", b"y")], [b"x-a, x-b"], ""), ([(b"X-B", b"1")], [b'x-a="y", x-b'], ""), ([], [b'x-a="y", x-b'], ""),
                   ([(b"X-A", b"y")], [b'x-a="y", x-b'], ""), ([(b"X-A", b"z")], [b"x-a, x-b"], "")]
            steps = seq[:rng.range(3, 5)] if rng.chance(1, 2) else [rng.choice(seq) for _ in range(nsteps)]
        yield s_line(steps)


def cases(rng, tier):
    yield from gen_small(tier)
    yield from gen_k(rng.fork("k"), tier)
    yield from gen_s(rng.fork("s"), tier)


# ---------------------------------------------------------------------------------------------- bookkeeping

def compare(line, impl, model):
    return impl == model


def nontrivial(line, impl, model):
    op = line.split(" ")[0]
    if op == "S":
        return bool(s_hits(impl, "hr")) or impl.count(",") >= 1
    if op == "P":
        return impl.startswith("m1=") and "m1=- " not in impl
    if op == "K":
        return impl.startswith("mark=") and impl != "mark=-"
    return True


def tag(line, impl, model):
    op = line.split(" ")[0]
    if op == "S":
        obs = impl.split(" ; ")[0].split(" ")
        hits = sum(1 for o in obs if o.startswith("h"))
        if any(o.startswith("r") for o in obs):
            return "S star revalidated-304"
        steps = parse_s(line)
        star = any(b"*" in vary_members(s[1]) for s in steps)
        return "S %s hits=%s nocache=%d" % ("star" if star else "plain", "0" if hits == 0 else "1" if hits == 1 else "2+", int(any("n" in s[2] for s in steps)))
    if op == "P":
        m = re.fullmatch(r"m1=(\S+) m2=(\S+)", impl or "")
        if not m:
            return "P " + (impl or "")[:20]
        return "P " + ("empty" if m.group(1) == "-" and m.group(2) == "-" else "star" if "2a" in (m.group(1), m.group(2)) else "equal" if m.group(1) == m.group(2) else "differ")
    if op == "K":
        return "K " + ("empty" if impl == "mark=-" else "star" if impl == "mark=2a" else "mark" if impl.startswith("mark=") else impl[:20])
    if op == "G":
        return "G " + impl.split("=")[0]
    return op


def shrink(line):
    toks = line.split(" ")
    if toks[0] == "S":
        steps = [dec_step(t) for t in toks[1:]]
        for k in range(len(steps)):
            if len(steps) > 1:
                yield s_line(steps[:k] + steps[k + 1:])
        for k, (h, v, f) in enumerate(steps):
            for j in range(len(h)):
                yield s_line(steps[:k] + [(h[:j] + h[j + 1:], v, f)] + steps[k + 1:])
            for j in range(len(v)):
                yield s_line(steps[:k] + [(h, v[:j] + v[j + 1:], f)] + steps[k + 1:])
            if f not in ("", "-"):
                yield s_line(steps[:k] + [(h, v, "")] + steps[k + 1:])
    elif toks[0] == "P":
        _, v1, h1, v2, h2 = toks
        for idx, hs in ((2, dec_hdrs(h1)), (4, dec_hdrs(h2))):
            for j in range(len(hs)):
                t = list(toks)
                t[idx] = enc_hdrs(hs[:j] + hs[j + 1:])
                yield " ".join(t)
    else:
        from vf.run import default_shrink
        yield from default_shrink(line)


def exhaustive(tier):
    return True   # gen_small: every octet through the escaper, every Vary string up to the tier's length over an 8-symbol alphabet, all request pairs of the tiny scope


KNOWN_MUST_MATCH_MODEL = True   # inside a known finding's region the observation must still equal the model's (which reproduces the listed defect); see lib/vf/run.py
