"""C24 Chunked decoding is exact and rejects malformed framing."""
import os
from vf.util import VERIF
from vf.harness import ProcHarness

ID = "C24"
PROP_MODULE = "SquidModel.Properties.C24"
MODEL = "c24"
GEN = ["chunked_sets"]

UNDER_TEST = ["src/http/one/TeChunkedParser.cc", "src/http/one/Tokenizer.cc", "src/http/one/Parser.cc",
              "src/parser/Tokenizer.cc", "src/mime_header.cc", "src/MemBuf.cc"]


def build_exe(stage):
    if "c24" in getattr(stage, "built", {}):
        return stage.built["c24"]
    objs = [stage.compile(os.path.join(VERIF, "harness", "c24.cc"))] + stage.compile_many(UNDER_TEST)
    exe = stage.link_like("tests/testHttp1Parser", objs, os.path.join(stage.work, "c24"), drop=("MemBuf.o", "mime_header.o"))
    stage.built = getattr(stage, "built", {})
    stage.built["c24"] = exe
    return exe


def build(stage):
    return ProcHarness([build_exe(stage)])


# ---------------------------------------------------------------------------------------------------------------
# Reference recogniser/decoder of the chunked coding, written from the grammar (RFC 9112 section 7.1 with the BWS
# positions of erratum 4667 that the Squid sources quote):
#   chunked-body = *chunk last-chunk trailer-section CRLF
#   chunk        = chunk-size [BWS0] chunk-ext CRLF chunk-data CRLF          chunk-size = 1*HEXDIG, value < 2^63
#   chunk-ext    = *( BWS ";" BWS chunk-ext-name [ BWS "=" BWS chunk-ext-val ] )
#   chunk-ext-val= token / quoted-string
#   BWS0         = *(SP / HTAB) between chunk-size and CRLF (the documented Bug 4492 tolerance)
#   BWS          = *(SP / HTAB), plus VT / FF / CR when relaxed_header_parser is on (RFC 9112 2.2 tolerance)
#   trailer-section: not validated; it ends with the first empty line (LF or CRLF terminated lines), at most 64 KB - 1
# It is a byte-at-a-time automaton over the *whole* input (no incremental restart, no tokenizer), so it shares neither
# structure nor code with the model. Result: ("done", body, consumed) | ("more", body) | ("invalid", body, pos, where)
# | ("toolarge", body).
# ---------------------------------------------------------------------------------------------------------------
TCHAR = set(b"!#$%&'*+-.^_`|~0123456789abcdefghijklmnopqrstuvwxyzABCDEFGHIJKLMNOPQRSTUVWXYZ")
HEXV = {c: int(chr(c), 16) for c in b"0123456789abcdefABCDEF"}
QDTEXT = set([9, 32, 0x21]) | set(range(0x23, 0x5C)) | set(range(0x5D, 0x7F)) | set(range(0x80, 0x100))
QPAIR = set([9, 32]) | set(range(0x21, 0x7F)) | set(range(0x80, 0x100))
WSP = set(b" \t")
TRAILER_LIMIT = 64 * 1024


def ref_decode(data, relaxed):
    bws = set(b" \t\x0b\x0c\r") if relaxed else WSP
    n = len(data)
    i = 0
    body = bytearray()
    while True:
        # ---- chunk-size
        if i >= n:
            return ("more", bytes(body))
        if data[i] not in HEXV:
            return ("invalid", bytes(body), i, "size-first")
        size = 0
        while i < n and data[i] in HEXV:
            size = size * 16 + HEXV[data[i]]
            if size >= 1 << 63:
                return ("invalid", bytes(body), i, "size-overflow")
            i += 1
        if i >= n:
            return ("more", bytes(body))
        # ---- [BWS0] chunk-ext CRLF : scan the gap between tokens, then decide what it may precede.
        # (relaxed mode: CR is BWS too; a CR LF pair is always where the header has to end)
        after = "size"           # what the gap follows: size | name | value
        while True:
            g = i
            while i < n and data[i] in bws and not (data[i] == 13 and i + 1 < n and data[i + 1] == 10):
                i += 1
            if i >= n:
                return ("more", bytes(body))
            c = data[i]
            gap = data[g:i]
            if c == 13:
                # CRLF may follow directly, or (after the size only) a run of SP/HTAB
                if gap and not (after == "size" and all(x in WSP for x in gap)):
                    return ("invalid", bytes(body), i, "bws-before-crlf-after-" + after)
                if i + 1 >= n:
                    return ("more", bytes(body))
                if data[i + 1] != 10:
                    return ("invalid", bytes(body), i + 1, "header-cr-without-lf")
                i += 2
                break
            if c == 59:      # ";"
                i += 1
                while i < n and data[i] in bws:
                    i += 1
                if i >= n:
                    return ("more", bytes(body))
                if data[i] not in TCHAR:
                    return ("invalid", bytes(body), i, "ext-name")
                while i < n and data[i] in TCHAR:
                    i += 1
                if i >= n:
                    return ("more", bytes(body))
                after = "name"
                continue
            if c == 61 and after == "name":     # "="
                i += 1
                while i < n and data[i] in bws:
                    i += 1
                if i >= n:
                    return ("more", bytes(body))
                if data[i] == 34:
                    i += 1
                    while True:
                        if i >= n:
                            return ("more", bytes(body))
                        q = data[i]
                        if q == 34:
                            i += 1
                            break
                        if q == 92:
                            if i + 1 >= n:
                                return ("more", bytes(body))
                            if data[i + 1] not in QPAIR:
                                return ("invalid", bytes(body), i + 1, "quoted-pair")
                            i += 2
                            continue
                        if q not in QDTEXT:
                            return ("invalid", bytes(body), i, "qdtext")
                        i += 1
                    if i >= n:
                        # a complete quoted-string needs no lookahead, but the header is not finished
                        return ("more", bytes(body))
                elif data[i] in TCHAR:
                    while i < n and data[i] in TCHAR:
                        i += 1
                    if i >= n:
                        return ("more", bytes(body))
                else:
                    return ("invalid", bytes(body), i, "ext-value")
                after = "value"
                continue
            return ("invalid", bytes(body), i, "header-octet-after-" + after)
        # ---- chunk-data CRLF or trailer-section
        if size > 0:
            have = min(size, n - i)
            body += data[i:i + have]
            i += have
            if have < size or i >= n:
                return ("more", bytes(body))
            if data[i] != 13:
                return ("invalid", bytes(body), i, "data-crlf")
            if i + 1 >= n:
                return ("more", bytes(body))
            if data[i + 1] != 10:
                return ("invalid", bytes(body), i + 1, "data-crlf")
            i += 2
            continue
        # trailer-section: ends with the first empty line
        t = data[i:]
        end = None
        if t[:1] == b"\n":
            end = 1
        elif t[:2] == b"\r\n":
            end = 2
        else:
            a, b = t.find(b"\n\n"), t.find(b"\n\r\n")
            cands = [x for x in ((a + 2) if a >= 0 else None, (b + 3) if b >= 0 else None) if x is not None]
            if cands:
                end = min(cands)
        if end is None:
            if len(t) >= TRAILER_LIMIT:
                return ("toolarge", bytes(body))
            return ("more", bytes(body))
        if end >= TRAILER_LIMIT:
            return ("toolarge", bytes(body))
        return ("done", bytes(body), i + end)


# ---------------------------------------------------------------------------------------------------------------
# Generators
# ---------------------------------------------------------------------------------------------------------------
import hashlib
from vf.util import hx, unhx

RULE = ("v: grammar-directed valid encodings of random bodies (0..64 KB; random chunk sizes, hex case, leading zeros, BWS, "
        "token/quoted-string extensions, trailers, pipelined bytes after the message) under random/structural/all-1 "
        "segmentations and random payload capacities; t: proper prefixes of those (every offset for small ones); "
        "x: boundary sizes (2^63 neighbours, 16/17 digits), trailer sizes around 64 KB, mutations (flip/insert/delete/"
        "duplicate/splice) and all short strings over a 12-symbol alphabet, all judged by the reference recogniser; "
        "both relaxed_header_parser settings. non-trivial = at least one chunk decoded, or a rejection; distinct = distinct lines")
TRUSTED = ["modelled, not verified: SBuf/MemBuf memory handling (covered by the ASan/UBSan differential run only); "
           "octet classes, digit values and the trailer limit are dumped from the running code every run",
           "python reference recogniser of the chunked grammar in props/C24.py (the direct oracle)"]
ASSUMPTIONS = ["customExtensionValueParser is null (HttpStateData/ConnStateData use); ICAP's use-original-body extension parser is out of scope",
               "payload buffers offer at least one octet of space per parse() call (positive capacities)",
               "trailer-section syntax is not validated by the decoder (grabMimeBlock only looks for the empty line); the oracle's "
               "grammar therefore accepts any trailer lines and LF-only line ends there",
               "relaxed_header_parser=on widens BWS to SP/HTAB/VT/FF/CR (Parser::WhitespaceCharacters); the oracle's grammar follows that documented tolerance"]
MANIFEST = {
    "text": "full: Lean theorems over a "
            "branch-by-branch model of TeChunkedParser / Tokenizer::int64 / tokenOrQuotedString / headersEnd and of the caller's feeding loop "
            "show, for every body, every encoding in the RFC 9112 grammar (any chunk sizes, hex case, leading zeros, BWS, token and "
            "quoted-string extensions, trailers), every segmentation (with pipelined octets after the message) and every sequence of "
            "positive payload capacities, that the decoder ends done with exactly the body and exactly the encoding consumed "
            "(decode_exact); that a proper prefix only ever asks for more data (truncated_needs_more); that 0x/0X sizes, non-hex sizes, "
            "sizes >= 2^63 and data without CRLF are rejected after any number of chunks in every segmentation (reject_*); and that for "
            "EVERY input, well-formed or not, all segmentations and capacities end with the verdict and output of the unsegmented run "
            "(segmentation_independence; true of the tree since /repo db563bd, which fixed finding C24-bws-before-crlf-split found by this "
            "check — the pre-fix variant is kept only as prefix_variant_counterexample). The real parser runs under ASan/UBSan against the model (per-call trace) and against a grammar-based "
            "reference decoder in both relaxed_header_parser settings.",
    "note": "trusted: Lean kernel, behavioural octet-class/digit/flag dump, C++ harness, python reference recogniser; modelled not verified: "
            "SBuf/MemBuf internals; not modelled: the extracted trailer block (cleanMimePrefix/unfoldMime), the ICAP custom extension "
            "value parser, what a caller does after 'trailers too large'",
    "technique": "Lean 4 proof (stability of every tokenizer step under input extension, resume-from-checkpoint lemma for the loop, "
                 "space/segmentation confluence, grammar induction) + behavioural set dump + ASan differential run with grammar-directed, "
                 "boundary, mutation and exhaustive small-scope generators",
    "engine": "inproc",
}

EXT_NAMES = [b"a", b"name", b"x-y.z", b"!#$%&'*+-.^_`|~", b"0", b"ABC123"]
TOKENS = [b"v", b"1", b"tok-en", b"0x5", b"deadbeef", b"~"]
QCONTENT = [b"", b"x", b"a b", b"semi;colon=eq", b"\\\"", b"\\\\", b"tab\there", b"\x80\xff", b"\\\x80", b"0\\\r".replace(b"\r", b" "), b"CR\\LF", b"'"]
ALPHA12 = b"05aFxg;=\" \r\n"
INTERESTING = b"\r\n;=\"\\ \t0xXgG1fF\x00\x0b\x0c\x7f\x80\xff:-"


def digest(b):
    return "%d.%s" % (len(b), hashlib.sha1(b).hexdigest()[:16])


def gen_bws(rng, relaxed_ok=False):
    k = rng.below(10)
    if k < 6:
        return b""
    if k < 8:
        return b" "
    if k == 8:
        return rng.choice([b"\t", b"  ", b" \t ", b"\t\t"])
    if relaxed_ok:
        return rng.choice([b"\x0b", b"\x0c", b"\r ", b" \r\x0b", b"\r\r"])
    return b" "


def gen_ext(rng, relaxed):
    rb = relaxed and rng.chance(1, 3)
    e = gen_bws(rng, rb) + b";" + gen_bws(rng, rb) + rng.choice(EXT_NAMES)
    k = rng.below(3)
    if k == 0:
        return e
    e += gen_bws(rng, rb) + b"=" + gen_bws(rng, rb)
    if k == 1:
        return e + rng.choice(TOKENS)
    return e + b'"' + b"".join(rng.choice(QCONTENT) for _ in range(rng.range(0, 3))) + b'"'


def gen_exts(rng, relaxed):
    k = rng.below(10)
    n = 0 if k < 5 else 1 if k < 8 else rng.range(2, 4)
    return b"".join(gen_ext(rng, relaxed) for _ in range(n))


def gen_size_text(rng, size):
    t = ("%x" % size) if rng.chance(1, 2) else ("%X" % size)
    if rng.chance(1, 4):
        t = "".join(c.upper() if rng.chance(1, 2) else c.lower() for c in t)
    if rng.chance(1, 5):
        t = "0" * rng.choice([1, 2, 7, 15, 16, 17, 40]) + t
    return t.encode()


def gen_header(rng, size, relaxed):
    h = gen_size_text(rng, size)
    exts = gen_exts(rng, relaxed)
    if not exts and rng.chance(1, 8):
        h += rng.choice([b" ", b"\t", b"  \t"])          # Bug 4492 tolerance
    return h + exts + b"\r\n"


def gen_trailer(rng):
    k = rng.below(10)
    if k < 6:
        return b"\r\n"
    lines = []
    for _ in range(rng.range(1, 3)):
        lines.append(rng.choice([b"X-Trailer: v", b"A:b", b"Expires: 0", b"X: a\r\n folded", b"Weird line without colon", b"\rlone-cr"]))
    eol = b"\n" if rng.chance(1, 6) else b"\r\n"
    return eol.join(lines) + eol + (b"\n" if rng.chance(1, 8) else b"\r\n")


def gen_body(rng, n):
    k = rng.below(4)
    if k == 0:
        return rng.bytes(n)
    if k == 1:
        return rng.bytes(n, b"\r\n0123456789abcdef;= \"")
    if k == 2:
        return rng.bytes(n, b"\r\n")
    return (b"5\r\nhello\r\n0\r\n\r\n" * (n // 15 + 1))[:n]


def gen_sizes(rng, n):
    """a random partition of n into positive chunk sizes"""
    sizes = []
    style = rng.below(5)
    while n > 0:
        if style == 0:
            s = rng.range(1, 3)
        elif style == 1:
            s = rng.choice([1, 2, 15, 16, 17, 255, 256, 257, 4095, 4096, 4097])
        elif style == 2:
            s = rng.range(1, max(1, n))
        elif style == 3:
            s = rng.range(1, 40)
        else:
            s = n
        s = min(s, n)
        sizes.append(s)
        n -= s
    return sizes


def gen_valid(rng, nbody, relaxed):
    """-> (encoding, body, marks): marks = offsets of structural boundaries inside the encoding"""
    body = gen_body(rng, nbody)
    enc = bytearray()
    marks = []
    pos = 0
    for s in gen_sizes(rng, nbody):
        enc += gen_header(rng, s, relaxed)
        marks.append(len(enc))
        enc += body[pos:pos + s]
        pos += s
        marks.append(len(enc))
        enc += b"\r\n"
        marks.append(len(enc))
    last = b"0" * rng.choice([1, 1, 1, 2, 5])
    exts = gen_exts(rng, relaxed)
    enc += last + exts + b"\r\n"
    marks.append(len(enc))
    enc += gen_trailer(rng)
    return bytes(enc), body, marks


MAX_CALLS = 400    # keeps one case linear-ish: every read re-scans/copies the unparsed rest


def gen_segs(rng, n, marks):
    k = rng.below(9)
    lo = n // MAX_CALLS + 1          # smallest uniform segment length that keeps the number of reads bounded
    if k == 0 or n == 0:
        return "-"
    if k == 1:
        return "*%d" % lo
    if k == 2:
        return "*%d" % (lo - 1 + rng.range(2, 9))
    if k == 3:
        return "*%d" % max(lo, rng.choice([16, 100, 1000, 4096]))
    if k in (4, 5) and marks:
        # cuts around structural boundaries
        cuts = sorted(set(max(0, min(n, rng.choice(marks) + rng.range(-2, 2))) for _ in range(rng.range(1, 6))))
    else:
        cuts = sorted(set(rng.range(0, n) for _ in range(rng.range(1, 8))))
    lens, prev = [], 0
    for c in cuts:
        lens.append(c - prev)
        prev = c
    if rng.chance(1, 6):
        lens.insert(rng.below(len(lens) + 1), 0)      # an empty read
    return ",".join(str(x) for x in lens) if lens else "-"


def gen_caps(rng, n=0):
    k = rng.below(8)
    lo = n // MAX_CALLS          # added to small capacities so that big bodies do not need too many parse() calls
    if k < 3:
        return "-"
    if k == 3:
        return "*%d" % (lo + 1)
    if k == 4:
        return "*%d" % (lo + rng.range(2, 20))
    if k == 5:
        return ",".join(str(lo + rng.range(1, 9)) for _ in range(rng.range(2, 5)))
    if k == 6:
        return ",".join(str(lo + rng.choice([1, 5, 100, 4095, 4096, 65535])) for _ in range(rng.range(1, 4)))
    return "*%d" % rng.choice([4096, 65535, 1 << 20])


def case_line(kind, relaxed, enc, segs, caps, dig, stream):
    return "%s %d %s %s %s %s %s" % (kind, 1 if relaxed else 0, hx(enc), segs, caps, dig, stream)


def data_in_prefix(enc, body, marks, k):
    """number of body octets among the first k octets of a generated encoding (marks come in triples)"""
    cnt = 0
    for j in range(0, len(marks) - 1, 3):
        a, b = marks[j], marks[j + 1]
        cnt += max(0, min(k, b) - a)
    return cnt


def mutate(rng, enc):
    enc = bytearray(enc)
    for _ in range(rng.range(1, 2)):
        k = rng.below(7)
        n = len(enc)
        if k == 0 and n:
            enc[rng.below(n)] = rng.choice(INTERESTING)
        elif k == 1 and n:
            enc[rng.below(n)] ^= 1 << rng.below(8)
        elif k == 2 and n:
            del enc[rng.below(n)]
        elif k == 3:
            enc.insert(rng.below(n + 1), rng.choice(INTERESTING))
        elif k == 4 and n:
            a = rng.below(n); b = min(n, a + rng.range(1, 6))
            enc[a:a] = enc[a:b]
        elif k == 5 and n:
            a = rng.below(n); b = min(n, a + rng.range(1, 4))
            del enc[a:b]
        else:
            # the classic one: insert BWS before a CRLF
            idx = [i for i in range(n - 1) if enc[i] == 13 and enc[i + 1] == 10]
            if idx:
                enc.insert(rng.choice(idx), rng.choice(b" \t"))
    return bytes(enc)


def boundary_inputs():
    """chunk-size limits and header edge cases, judged by the reference recogniser"""
    res = []
    tail = b"\r\nabc"
    for digits in ["7fffffffffffffff", "8000000000000000", "7FFFFFFFFFFFFFFF", "ffffffffffffffff", "10000000000000000",
                   "07fffffffffffffff", "0000000000000000000007fffffffffffffff", "00000000000000008000000000000000",
                   "7ffffffffffffffff", "fffffffffffffffffffffffffffffffff", "100000000", "ffffffff", "7fffffff", "80000000",
                   "0", "00", "0000000000000000", "00000000000000000", "1", "f", "F", "10", "0x1", "0X1", "00x1", "x1", "1x", "0x",
                   "-1", "+1", " 1", "1 ", "g", "1g", "", "1;", "1 ;", "١"]:
        d = digits.encode()
        res.append(d + tail)
        res.append(d + b"\r\n")
        res.append(d)
        res.append(d + b"\r\nX\r\n0\r\n\r\n")
    for hdr in [b"1\r\nX\r\n0\r\n\r\n", b"1\nX\r\n0\r\n\r\n", b"1\r\nX\n0\r\n\r\n", b"1\r\nX\r\n0\n\r\n", b"1\r\nX\r\n0\r\n\n", b"1\r\nXY\r\n0\r\n\r\n",
                b"1\r\nX\r0\r\n\r\n", b"1\r\nX\r\n\r\n0\r\n\r\n", b"1;\r\nX\r\n0\r\n\r\n", b"1;=\r\nX\r\n0\r\n\r\n", b"1;a=\r\nX\r\n0\r\n\r\n",
                b"1;a=\"\r\nX\r\n0\r\n\r\n", b"1;a=\"\\\r\nX\r\n0\r\n\r\n", b"1;a=\"\\\x7f\"\r\nX\r\n0\r\n\r\n", b"1;a=\"\x7f\"\r\nX\r\n0\r\n\r\n",
                b"1;a=b=c\r\nX\r\n0\r\n\r\n", b"1;a b\r\nX\r\n0\r\n\r\n", b"1;a;\r\nX\r\n0\r\n\r\n", b"1;;a\r\nX\r\n0\r\n\r\n", b"1;a=\"x\"y\r\nX\r\n0\r\n\r\n",
                b"1;a=\"x\" \r\nX\r\n0\r\n\r\n", b"1;a=x \r\nX\r\n0\r\n\r\n", b"1;a \r\nX\r\n0\r\n\r\n", b"1 \r\nX\r\n0\r\n\r\n", b"1\t \r\nX\r\n0\r\n\r\n",
                b"1\x0b\r\nX\r\n0\r\n\r\n", b"1\x0b;a\r\nX\r\n0\r\n\r\n", b"1;a\x0c=\rb\r\nX\r\n0\r\n\r\n", b"1\r;a\r\nX\r\n0\r\n\r\n", b"1;a=\"x\"\r\r\nX\r\n0\r\n\r\n",
                b"1;a,b\r\nX\r\n0\r\n\r\n", b"1;a=b,c\r\nX\r\n0\r\n\r\n", b"0;a=\"x\" \r\n\r\n", b"0;a=x\t\r\n\r\n", b"0 \r\n\r\n", b"0\r\n\r\n", b"0\r\n\n", b"0\r\n\r",
                b"0\r\nA\r\n\r\n", b"0\r\nA\n\n", b"0\r\n\rA\r\n\r\n", b"0\r\n\r\r\n\r\n", b"0\r\n \r\n\r\n", b"0\r\nA: b\r\n c\r\n\r\n"]:
        res.append(hdr)
    # trailer sizes around the 64 KB limit
    for n in [65530, 65531, 65532, 65533, 65534, 65535, 65536, 65537, 70000]:
        fill = b"X: " + b"a" * (n - 7) + b"\r\n\r\n"      # len(fill) == n
        res.append(b"0\r\n" + fill)
        res.append(b"0\r\n" + fill[:-2])                  # no empty line yet
        res.append(b"0\r\n" + fill[:-4])
    return res


def small_strings(maxlen, alpha=ALPHA12):
    def rec(prefix, n):
        if n == 0:
            yield prefix
            return
        for c in alpha:
            yield from rec(prefix + bytes([c]), n - 1)
    for n in range(0, maxlen + 1):
        yield from rec(b"", n)


def all_segmentations(n):
    """every composition of n as a comma list (2^(n-1) of them)"""
    if n <= 1:
        yield "-"
        return
    for mask in range(1 << (n - 1)):
        lens, run = [], 1
        for j in range(n - 1):
            if mask >> j & 1:
                lens.append(run)
                run = 1
            else:
                run += 1
        yield ",".join(str(x) for x in lens) if lens else "-"


def cases(rng, tier):
    thorough = tier == "thorough"
    # ---- boundary stream (both modes; one-shot, all-1 and a random segmentation)
    for enc in boundary_inputs():
        for relaxed in (False, True):
            yield case_line("x", relaxed, enc, "-", "-", "-", "boundary")
            if len(enc) < 200:
                yield case_line("x", relaxed, enc, "*1", "*1", "-", "boundary")
            yield case_line("x", relaxed, enc, gen_segs(rng, len(enc), []), gen_caps(rng, len(enc)), "-", "boundary")
    # ---- exhaustive small scope
    maxlen = 4 if thorough else 3
    for s in small_strings(maxlen):
        for relaxed in (False, True):
            yield case_line("x", relaxed, s, "-", "-", "-", "small")
            if len(s) >= 2:
                yield case_line("x", relaxed, s, "*1", "-", "-", "small")
    if thorough:
        for s in small_strings(5, b"1a;=\" \r\n"):
            if len(s) == 5:
                yield case_line("x", False, s, "*1", "-", "-", "small")
                yield case_line("x", True, s, "-", "-", "-", "small")
    # ---- valid stream
    nvalid = 2500 if thorough else 170
    for i in range(nvalid):
        relaxed = rng.chance(1, 2)
        k = rng.below(20)
        if k < 8:
            nbody = rng.range(0, 40)
        elif k < 14:
            nbody = rng.range(0, 600)
        elif k < 19:
            nbody = rng.range(600, 9000)
        else:
            nbody = rng.choice([65536, 65535, 40000, 16384]) if (thorough or i % 3 == 0) else rng.range(9000, 20000)
        enc, body, marks = gen_valid(rng, nbody, relaxed)
        r = ref_decode(enc, relaxed)
        if r[0] != "done" or r[1] != body or r[2] != len(enc):
            raise RuntimeError("reference decoder disagrees with the generator on %r: %r" % (enc[:200], r[:1] + r[2:]))
        extra = b""
        if rng.chance(1, 5):
            extra = rng.choice([b"HTTP/1.1 200 OK\r\n", b"0\r\n\r\n", b"\r\n", b"5\r\nhello\r\n", b"\x00"])
        dig = digest(body) + "." + str(len(enc))
        nseg = 3 if len(enc) < 2000 else 1
        for _ in range(nseg):
            yield case_line("v", relaxed, enc + extra, gen_segs(rng, len(enc) + len(extra), marks), gen_caps(rng, len(enc)), dig, "valid")
        # every two-way split of small encodings (and every three-way split of tiny ones in thorough)
        if len(enc) <= (120 if thorough else 60) and i % 3 == 0:
            for a in range(1, len(enc)):
                yield case_line("v", relaxed, enc, str(a), gen_caps(rng) if a % 5 == 0 else "-", dig, "valid-split2")
            if thorough and len(enc) <= 40:
                for a in range(1, len(enc)):
                    for b in range(1, len(enc) - a):
                        yield case_line("v", relaxed, enc, "%d,%d" % (a, b), "-", dig, "valid-split3")
        if len(enc) <= 14 and thorough:
            for sg in all_segmentations(len(enc)):
                yield case_line("v", relaxed, enc, sg, "*1", dig, "valid-allsegs")
        # ---- truncation stream: proper prefixes
        if len(enc) <= (300 if thorough else 80) and i % 4 == 1:
            offs = range(0, len(enc))
        else:
            nt = 3 if len(enc) <= 10000 else 1
            offs = sorted(set([rng.range(0, len(enc) - 1) for _ in range(nt)] +
                              [max(0, min(len(enc) - 1, rng.choice(marks) + rng.range(-2, 1))) for _ in range(nt)]))
        for k in offs:
            pre = enc[:k]
            exp = body[:data_in_prefix(enc, body, marks, k)]
            yield case_line("t", relaxed, pre, gen_segs(rng, k, [m for m in marks if m <= k]), gen_caps(rng, k), digest(exp) + ".-", "truncated")
        # ---- mutation stream
        if len(enc) <= 3000:
            for _ in range(6 if thorough else 4):
                m = mutate(rng, enc)
                yield case_line("x", relaxed, m, gen_segs(rng, len(m), marks), gen_caps(rng), "-", "mutated")
        if i % 7 == 0:
            other, _, _ = gen_valid(rng, rng.range(0, 30), relaxed)
            a, b = rng.range(0, len(enc)), rng.range(0, len(other))
            sp = enc[:a] + other[b:]
            if len(sp) <= 5000:
                yield case_line("x", relaxed, sp, gen_segs(rng, len(sp), marks), gen_caps(rng), "-", "spliced")
    # ---- a little fully random
    for _ in range(2000 if thorough else 200):
        n = rng.range(0, 24)
        s = rng.bytes(n, INTERESTING + b"0123456789abcdef")
        yield case_line("x", rng.chance(1, 2), s, gen_segs(rng, n, []), gen_caps(rng), "-", "random")


# ---------------------------------------------------------------------------------------------------------------
# Oracle
# ---------------------------------------------------------------------------------------------------------------
def parse_out(impl):
    f = impl.split(" ")
    d = {"verdict": f[0]}
    for kv in f[1:]:
        k, _, v = kv.partition("=")
        d[k] = v
    return d


def split_points(line):
    """offsets of the read boundaries of a case line"""
    f = line.split(" ")
    n = len(unhx(f[2]))
    sg = f[3]
    if sg == "-":
        return []
    if sg.startswith("*"):
        k = int(sg[1:])
        return list(range(k, n, k))
    res, pos = [], 0
    for x in sg.split(","):
        pos = min(n, pos + int(x))
        res.append(pos)
    return [p for p in res if p < n]


def oracle(line, impl):
    f = line.split(" ")
    kind, relaxed, enc, dig = f[0], f[1] == "1", unhx(f[2]), f[5]
    if impl.startswith("abort:"):
        return "sanitizer/abort: " + impl[:200]
    if impl in ("bad-op",):
        return "harness refused the case line"
    try:
        o = parse_out(impl)
        out = unhx(o["out"])
    except (ValueError, KeyError):
        return "unparsable harness output " + impl[:80]
    v = o["verdict"]
    ref = ref_decode(enc, relaxed)
    if kind == "v":
        blen, sha, explen = dig.split(".")
        if v != "done":
            return "valid encoding not decoded to the end: verdict " + v
        if digest(out) != blen + "." + sha:
            return "decoded body differs from the original body (%d octets instead of %s)" % (len(out), blen)
        if o["consumed"] != explen:
            return "consumed %s octets of an encoding of %s octets" % (o["consumed"], explen)
    elif kind == "t":
        blen, sha, _ = dig.split(".")
        if v != "more":
            return "truncated valid encoding: verdict %s instead of asking for more data" % v
        if digest(out) != blen + "." + sha:
            return "truncated valid encoding: output is not the body octets received so far (%d instead of %s)" % (len(out), blen)
    # every line is also judged against the reference recogniser of the grammar
    if ref[0] == "done":
        if v != "done":
            return "grammar-valid encoding: verdict %s" % v
        if out != ref[1]:
            return "grammar-valid encoding decoded to a different body"
        if o["consumed"] != str(ref[2]):
            return "grammar-valid encoding of %d octets: consumed %s" % (ref[2], o["consumed"])
    elif ref[0] == "more":
        if v != "more":
            return "prefix of a grammar-valid encoding: verdict %s instead of asking for more data" % v
        if out != ref[1]:
            return "prefix of a grammar-valid encoding: output differs from the body octets present"
    elif ref[0] == "toolarge":
        if v != "toolarge":
            return "trailer section over the limit: verdict %s" % v
        if out != ref[1]:
            return "oversized trailers: body differs"
    else:
        if not v.startswith("reject:"):
            return "malformed framing (%s at offset %d) not rejected: verdict %s" % (ref[3], ref[2], v)
        if not ref[1].startswith(out):
            return "output before the rejection is not a prefix of the well-formed part's body"
    return None


def nontrivial(line, impl, model):
    o = parse_out(impl)
    return o["verdict"].startswith("reject:") or o.get("out", "-") != "-"


def tag(line, impl, model):
    f = line.split(" ")
    stream = f[6] if len(f) > 6 else "?"
    n = 0 if f[2] == "-" else len(f[2]) // 2
    size = "<=16" if n <= 16 else "<=256" if n <= 256 else "<=4K" if n <= 4096 else ">4K"
    seg = "oneshot" if f[3] == "-" else "bytewise" if f[3] == "*1" else "split"
    return "%s %s %s %s" % (stream, size, seg, impl.split(" ")[0])


def shrink(line):
    f = line.split(" ")
    # simpler segmentation / capacities first
    if f[4] != "-":
        yield " ".join(f[:4] + ["-"] + f[5:])
    if f[3] != "-":
        yield " ".join(f[:3] + ["-"] + f[4:])
        parts = f[3].split(",")
        if len(parts) > 1:
            for i in range(len(parts)):
                q = parts[:i] + parts[i + 1:]
                if i < len(parts) - 1 and not parts[i].startswith("*"):
                    q = parts[:i] + [str(int(parts[i]) + int(parts[i + 1]))] + parts[i + 2:]
                yield " ".join(f[:3] + [",".join(q)] + f[4:])
    if f[0] == "x" and f[2] != "-":
        # octet removal keeps the line self-judging (reference recogniser); segment lists are clipped by the harness
        tk = f[2]
        n = len(tk) // 2
        step = max(1, n // 2)
        while step >= 1:
            for off in range(0, n, step):
                cand = tk[:off * 2] + tk[(off + step) * 2:]
                yield " ".join(f[:2] + [cand or "-"] + f[3:])
            step //= 2


def exhaustive(tier):
    return True   # all strings over a 12-symbol alphabet up to length 3 (quick) / 4 (thorough); every 2-way split of small encodings
