"""C43 Integer-range ACLs match exactly the configured ranges."""
import os, re
from vf.util import VERIF, hx, unhx
from vf.harness import ProcHarness

ID = "C43"
PROP_MODULE = "SquidModel.Properties.C43"
MODEL = "c43"
GEN = ["int_range"]
RULE = ("a|s <hex tokens> <probe ints>: the token list is parsed by the real ACLIntRange::parse through ConfigParser (a = default "
        "parser mode, s = configuration_includes_quoted_values on) and match() is asked for every probe. "
        "Generators: every list of <=2 ranges over 0..15 (thorough; 0..7 quick) and of 3 ranges over 0..5 (0..3 quick), each probed at "
        "-1..16; random lists of up to 8 values/ranges over the 16-bit port space with overlaps/nesting/adjacency, probed at every "
        "bound +-1; boundary tokens (65535/65536, 2^31, 2^32+80, 2^63, 2^64+80, leading zeros, signs, C white space); byte-level "
        "mutations of valid tokens. non-trivial = the list was accepted, is non-empty and at least one probe was matched against it")
TRUSTED = ["modelled, not verified: strtoll(…,10) of the C library is modelled (C-locale white space, sign, digits, saturation); "
           "ConfigParser::strtokFile is not modelled: the harness only feeds tokens that it returns verbatim (checked by the "
           "correspondence run, which goes through the real tokenizer)",
           "the harness replaces self_destruct() by a C++ throw and classifies the rejection by the ERROR text squid logged"]
ASSUMPTIONS = ["tokens are the byte strings ConfigParser::strtokFile returns (no NUL, no configuration white space, not starting with # \" ')",
               "long is 64 bits wide (xatol's narrowing check cannot fire); int is 32 bits wide"]
MANIFEST = {
    "text": "full: for every list of well-formed values/ranges (decimal digits, lo<=hi<=65535, any order, overlaps, leading zeros) "
            "ACLIntRange::parse accepts and match(i) is true exactly when i lies in the union, for every int i including INT_MAX "
            "(theorem match_iff_union); every accepted list (including the lax spellings strtoll admits) yields ranges inside 0..65535 "
            "and match is exactly membership in them; one rejected token rejects the whole list with the error of the first one",
    "note": "trusted: Lean kernel, the C++ harness (own self_destruct/debug sink), python oracle; modelled not verified: strtoll, "
            "ConfigParser tokenisation (only verbatim tokens are fed). The anchor src/acl/SplayInserter.h is not used by ACLIntRange in "
            "this tree (ranges are kept in a std::list, no merging). Repaired in /repo 21bf4c4: match(INT_MAX) no longer computes i+1",
    "technique": "Lean 4 proof (induction over the token list) + constants translator + ASan/UBSan differential run "
                 "with exhaustive small scopes",
}

INT_MAX = 2147483647
INT_MIN = -2147483648


def build_exe(stage):
    built = getattr(stage, "built", None)
    if built is None:
        built = stage.built = {}
    if "c43" in built:
        return built["c43"]
    objs = [stage.compile(os.path.join(VERIF, "harness", "c43.cc")),
            stage.compile("src/acl/IntRange.cc"), stage.compile("src/Parsing.cc")]
    exe = stage.link_like("tests/testACLMaxUserIP", objs, os.path.join(stage.work, "c43"),
                          drop=["tests/stub_cache_cf.o", "tests/stub_debug.o", "Parsing.o"],
                          extra=["acl/.libs/libapi.a", "acl/.libs/libstate.a", "tests/stub_ACLFilledChecklist.o",
                                 "anyp/.libs/libanyp.a", "sbuf/.libs/libsbuf.a", "base/.libs/libbase.a"])
    built["c43"] = exe
    return exe


def build(stage):
    # no symbolised stack for UBSan stops (the summary line names file:line): a stop then costs milliseconds, not a second
    return ProcHarness([build_exe(stage)], env={"UBSAN_OPTIONS": "print_stacktrace=0:halt_on_error=1:exitcode=86"})


# ---------------------------------------------------------------------------------------------- case lines

def mk(mode, tokens, probes):
    return "%s %s %s" % (mode, ",".join(hx(t) for t in tokens) if tokens else "-",
                         ",".join(str(p) for p in probes) if probes else "-")


def parse_line(line):
    mode, toks, probes = line.split(" ")
    tokens = [] if toks == "-" else [unhx(t) for t in toks.split(",")]
    ints = [] if probes == "-" else [int(p) for p in probes.split(",")]
    return mode, tokens, ints


def item_token(rng, lo, hi):
    """a spelling of the value / range with optional leading zeros"""
    def num(n):
        s = str(n)
        if rng.chance(1, 12):
            s = "0" * rng.range(1, 4) + s
        return s
    if lo == hi and rng.chance(3, 4):
        return num(lo).encode()
    return (num(lo) + "-" + num(hi)).encode()


def probes_for(rng, items, extra=()):
    ps = set(extra)
    for lo, hi in items:
        ps.update((lo - 1, lo, lo + 1, hi - 1, hi, hi + 1))
    for _ in range(4):
        ps.add(rng.range(0, 65535))
    ps.update((0, 65535, 65536, -1))
    ps = [p for p in ps if INT_MIN <= p <= INT_MAX]
    rng.shuffle(ps)
    return ps[:40]


INTERESTING = [0, 1, 2, 79, 80, 81, 442, 443, 444, 1023, 1024, 1025, 8080, 32767, 32768, 65534, 65535]


def random_items(rng):
    n = rng.choice([0, 1, 1, 2, 2, 3, 3, 4, 5, 8])
    items = []
    for _ in range(n):
        k = rng.below(6)
        if k == 0 and items:       # nested in / overlapping / adjacent to an earlier one
            lo0, hi0 = rng.choice(items)
            lo = max(0, min(65535, lo0 + rng.range(-3, 3)))
            hi = max(lo, min(65535, hi0 + rng.range(-3, 3)))
        elif k == 1 and items:
            lo0, hi0 = rng.choice(items)
            lo = min(65535, hi0 + rng.range(0, 2))
            hi = min(65535, lo + rng.range(0, 50))
        elif k == 2:
            lo = rng.choice(INTERESTING)
            hi = max(lo, rng.choice(INTERESTING))
        elif k == 3:
            lo = hi = rng.range(0, 65535)
        else:
            lo = rng.range(0, 65535)
            hi = rng.range(lo, min(65535, lo + rng.choice([0, 1, 10, 1000, 65535])))
        items.append((lo, hi))
    return items


BOUNDARY_TOKENS = [b"0", b"65535", b"65536", b"0-65535", b"0-65536", b"65535-65535", b"65535-65536", b"65536-65536", b"65534-65535",
                   b"00080", b"0000000000000000000000080", b"00000000000000000000000065535", b"00000000000000000000000065536",
                   b"65616", b"131071", b"2147483647", b"2147483648", b"4294967295", b"4294967296", b"4294967376",
                   b"9223372036854775807", b"9223372036854775808", b"18446744073709551615", b"18446744073709551696",
                   b"99999999999999999999999999999999", b"-0", b"+0", b"+80", b"+80-+90", b"80-+90", b"-80", b"80--90", b"80-", b"-",
                   b"--", b"80-90-100", b"1-2-", b"0x50", b"80.0", b"80,90", b"8e1", b"\x0b80", b"\x0c80", b"80\x0b", b"\x0b80-\x0c90",
                   b"80-\x0b", b"+", b"+-5", b"-+5", b"a", b"80a", b"a80", b"1-0", b"65535-0", b"5-4", b"0-0", b"1-1",
                   b"0-9223372036854775807", b"0--9223372036854775808", b"-9223372036854775809", b"65535-4294967295"]

MUT_CHARS = b"+-- \x0b\x0cxX.,:/#0019a\"'(\\\t=_)"


def mutate(rng, tok):
    t = bytearray(tok)
    k = rng.below(7)
    if k == 0 and t:
        t[rng.below(len(t))] = rng.choice(MUT_CHARS)
    elif k == 1:
        t.insert(rng.below(len(t) + 1), rng.choice(MUT_CHARS))
    elif k == 2 and t:
        del t[rng.below(len(t))]
    elif k == 3 and t:
        t = t[:rng.below(len(t) + 1)]
    elif k == 4:
        p = rng.below(len(t) + 1)
        t = t[:p] + t[max(0, p - rng.range(1, 3)):]
    elif k == 5 and t:
        t[rng.below(len(t))] = rng.below(256)
    else:
        t = t + b"-" + t
    return bytes(t) or b"-"     # strtokFile never returns an empty token


def exhaustive_lists(hi, maxlen):
    ranges = [(a, b) for a in range(hi + 1) for b in range(a, hi + 1)]
    def rec(prefix, n):
        if n == 0:
            yield prefix
            return
        for r in ranges:
            yield from rec(prefix + [r], n - 1)
    for n in range(maxlen + 1):
        yield from rec([], n)


def cases(rng, tier):
    thorough = tier == "thorough"
    # --- exhaustive small scopes (canonical spelling; one line per list, probes cover the scope and its border)
    hi2 = 15 if thorough else 7
    probes = list(range(-1, hi2 + 2))
    for items in exhaustive_lists(hi2, 2):
        yield mk("a", [(b"%d" % lo) if lo == hi else (b"%d-%d" % (lo, hi)) for lo, hi in items], probes)
    hi3 = 5 if thorough else 3
    probes = list(range(-1, hi3 + 2))
    for items in exhaustive_lists(hi3, 3):
        if len(items) == 3:
            yield mk("a", [b"%d-%d" % (lo, hi) for lo, hi in items], probes)
    # every single boundary token alone and after a valid one
    for t in BOUNDARY_TOKENS:
        yield mk("a", [t], [0, 79, 80, 81, 90, 91, 65535, 65536, -1])
        yield mk("s", [b"7", t], [0, 7, 80, 90, 65535])
    # --- random streams
    n = 12000 if thorough else 1800
    for _ in range(n):
        mode = "s" if rng.chance(1, 4) else "a"
        k = rng.below(10)
        items = random_items(rng)
        toks = [item_token(rng, lo, hi) for lo, hi in items]
        if k < 6:          # valid
            extra = []
            if rng.chance(1, 10):
                extra = [rng.choice([INT_MIN, INT_MIN + 1, INT_MAX - 1, INT_MAX, 1 << 16, (1 << 16) + 80, 1 << 30, -65536])]
            yield mk(mode, toks, probes_for(rng, items, extra))
        elif k < 8:        # boundary token somewhere in a valid list
            pos = rng.below(len(toks) + 1)
            toks.insert(pos, rng.choice(BOUNDARY_TOKENS))
            extra = [INT_MAX] if rng.chance(1, 6) else []     # regression: match(INT_MAX) used to overflow (fixed in 21bf4c4)
            ps = probes_for(rng, items, [80, 90, 91])
            yield mk(mode, toks, ps + extra)
        else:              # mutation of one token of a valid list
            if not toks:
                toks = [b"80-90"]
                items = [(80, 90)]
            pos = rng.below(len(toks))
            toks[pos] = mutate(rng, toks[pos])
            if rng.chance(1, 5):
                pos = rng.below(len(toks))
                toks[pos] = mutate(rng, toks[pos])
            yield mk(mode, toks, probes_for(rng, items))


# ---------------------------------------------------------------------------------------------- direct oracle

STRICT = re.compile(rb"([0-9]+)(?:-([0-9]+))?\Z")


def expectation(tok):
    """-> ('item', lo, hi) for a well-formed value/range; ('reject', cls) for a well-formed spelling outside the domain;
    ('reject', None) for text without any digit; ('lax',) otherwise (the property does not say)."""
    m = STRICT.match(tok)
    if m:
        lo = int(m.group(1))
        hi = int(m.group(2)) if m.group(2) is not None else lo
        if lo > 65535 or hi > 65535:
            return ("reject", "too-large")
        if hi < lo:
            return ("reject", "descending")
        return ("item", lo, hi)
    if not any(48 <= c <= 57 for c in tok):
        return ("reject", None)
    return ("lax",)


def harness_verbatim(mode, t):
    if not t or t[0] in b"#\"'":
        return False
    for c in t:
        if c in (0, 32, 9, 10, 13):
            return False
        if mode == "s" and not (chr(c).isalnum() and c < 128) and c not in b".,)-=_/:+":
            return False
    return True


def oracle(line, impl):
    mode, tokens, probes = parse_line(line)
    if impl.startswith("abort:") or impl.startswith("exception:") or impl.startswith("harness-inconsistency"):
        return "sanitizer/abort: " + impl
    if impl == "bad-op":
        return "harness could not read the case"
    if not all(harness_verbatim(mode, t) for t in tokens):
        return None if impl == "reject:harness-token" else "token outside the harness contract was not refused by the harness"
    exps = [expectation(t) for t in tokens]
    rejected = impl.startswith("reject:")
    # 1. all-or-nothing: a list with an out-of-domain or digit-free token must be refused
    if any(e[0] == "reject" for e in exps):
        if not rejected:
            return "a list with an invalid value/range was accepted"
        first_bad = next(i for i, e in enumerate(exps) if e[0] != "item")
        if exps[first_bad][0] == "reject" and exps[first_bad][1] and impl != "reject:" + exps[first_bad][1]:
            return "refused for another reason than the first invalid token gives (%s expected)" % exps[first_bad][1]
        return None
    if all(e[0] == "item" for e in exps):
        # 2. well-formed list: accepted, and match == membership in the union of the listed ranges
        if rejected:
            return "a well-formed list of values/ranges was refused"
        m = re.match(r"ok (\S+) (\S+)\Z", impl)
        if not m:
            return "unparsable output"
        bits = "" if m.group(2) == "-" else m.group(2)
        if len(bits) != len(probes):
            return "wrong number of answers"
        for p, b in zip(probes, bits):
            want = any(lo <= p <= hi for (_, lo, hi) in exps)
            if (b == "1") != want:
                return "match(%d) = %s but the number is %sin the union of the configured ranges" % (p, b, "" if want else "not ")
        want_dump = ",".join(str(lo) if lo == hi else "%d-%d" % (lo, hi) for (_, lo, hi) in exps) or "-"
        if m.group(1) != want_dump:
            return "dump() does not list the configured ranges in order"
        return None
    # 3. a lax spelling is present: the property does not say whether it is accepted; when it is, the answers must be
    #    exactly membership in what dump() reports, and that must lie in the port space
    if rejected:
        return None
    m = re.match(r"ok (\S+) (\S+)\Z", impl)
    if not m:
        return "unparsable output"
    ranges = []
    if m.group(1) != "-":
        for d in m.group(1).split(","):
            mm = re.match(r"(\d+)(?:-(\d+))?\Z", d)
            if not mm:
                return "dump() entry %r is not a value or range" % d
            lo = int(mm.group(1))
            hi = int(mm.group(2)) if mm.group(2) is not None else lo
            if not (0 <= lo <= hi <= 65535):
                return "accepted range %r outside the port space or descending" % d
            ranges.append((lo, hi))
    if len(ranges) != len(tokens):
        return "dump() has another number of entries than the configured list"
    for e, r in zip(exps, ranges):
        if e[0] == "item" and (e[1], e[2]) != r:
            return "dump() entry differs from the configured range"
    bits = "" if m.group(2) == "-" else m.group(2)
    if len(bits) != len(probes):
        return "wrong number of answers"
    for p, b in zip(probes, bits):
        want = any(lo <= p <= hi for lo, hi in ranges)
        if (b == "1") != want:
            return "match(%d) = %s contradicts the ranges dump() reports" % (p, b)
    return None


def shrink(line):
    """big steps first: no tokens, one probe, halves, then single removals"""
    try:
        mode, tokens, probes = parse_line(line)
    except ValueError:
        return
    if tokens:
        yield mk(mode, [], probes)
    if len(probes) > 1:
        for p in sorted(probes, key=lambda x: -abs(x))[:6]:
            yield mk(mode, tokens, [p])
        h = len(probes) // 2
        yield mk(mode, tokens, probes[:h])
        yield mk(mode, tokens, probes[h:])
    if len(tokens) > 1:
        h = len(tokens) // 2
        yield mk(mode, tokens[:h], probes)
        yield mk(mode, tokens[h:], probes)
    for i in range(len(tokens)):
        yield mk(mode, tokens[:i] + tokens[i + 1:], probes)
    for i in range(len(probes)):
        yield mk(mode, tokens, probes[:i] + probes[i + 1:])
    for i, t in enumerate(tokens):
        for j in range(len(t)):
            c = t[:j] + t[j + 1:]
            if c:
                yield mk(mode, tokens[:i] + [c] + tokens[i + 1:], probes)


def nontrivial(line, impl, model):
    return impl.startswith("ok ") and not impl.startswith("ok - ") and not impl.endswith(" -")


def tag(line, impl, model):
    mode, tokens, probes = parse_line(line)
    n = len(tokens)
    size = "0" if n == 0 else "1" if n == 1 else "2-3" if n <= 3 else "4+"
    kinds = set(expectation(t)[0] for t in tokens)
    spelling = "lax" if "lax" in kinds else "invalid" if "reject" in kinds else "wellformed"
    out = impl.split(" ")[0] if not impl.startswith("abort:") else "abort"
    return "%s n=%s %s %s" % (mode, size, spelling, out)


def exhaustive(tier):
    return True
