"""C54 Shared read/write lock provides mutual exclusion (lock-free protocol, scheduler-controlled atomics)."""
import os, itertools
from vf.util import VERIF
from vf.harness import ProcHarness
from vf import ipccopy

ID = "C54"
PROP_MODULE = "SquidModel.Properties.C54"
MODEL = "c54"
GEN = []
RULE = ("scenario = 2..5 virtual threads x per-thread call sequences (lock/unlock/switch/append sessions + random calls) x a schedule that picks which "
        "thread performs its next single atomic operation; thorough adds every schedule of length 12 over 2 threads (and 3^8 over 3) for a set of "
        "call-sequence tuples; the full atomic-operation trace (thread, object, kind, old, new), results, final state are compared with the model "
        "(trace validation); non-trivial = at least two threads performed atomic operations; distinct = distinct scenario lines")
TRUSTED = ["sequentially consistent atomics (the acquire/release pair on `updating` is modelled as SC)",
           "textual instrumentation std::atomic -> verif::atomic of a copy of src/ipc/ReadWriteLock.{h,cc}; ucontext coroutine scheduler",
           "loads evaluated only inside assert() are not steps; the asserted conditions are theorems (asserts_hold, finalize_sees_not_appending)"]
ASSUMPTIONS = ["callers respect the method contracts (e.g. unlockShared only by a shared holder), as encoded in `begin`"]
MANIFEST = {
    "text": "full: for every reachable configuration of any number of threads under any interleaving of single atomic operations: exclusive_holders_unique, "
            "exclusive_excludes_shared, shared_with_writer_only_if_appending, headers_mutex, idle_after_release, can_acquire_when_idle, asserts_hold, "
            "finalize_sees_not_appending, via an inductive counting invariant (inv_step, 43 atomic actions). The model's atomic actions are validated against the "
            "real code by replaying scheduler-controlled executions of an instrumented copy of ReadWriteLock.cc and comparing the complete operation trace.",
    "note": "trusted: Lean kernel; SC memory model; the sed-instrumentation and coroutine scheduler; API-level holder oracle in harness/c54.cc. Not modelled: weak-memory effects, process crashes while holding the lock",
    "technique": "Lean 4 inductive invariant over interleavings (any number of threads) + trace validation against scheduler-controlled real code",
}


def build_exe(stage):
    root = ipccopy.make_copies(stage, ["ipc/ReadWriteLock.h", "ipc/ReadWriteLock.cc"])
    fl = ipccopy.flags(root)
    ub = ["-fsanitize=undefined", "-fno-sanitize-recover=all"]
    objs = [stage.compile(os.path.join(root, "ipc/ReadWriteLock.cc"), sanitize=False, pre=fl, extra=ub),
            stage.compile(os.path.join(VERIF, "harness/c54.cc"), sanitize=False, pre=fl, extra=ub),
            stage.compile(os.path.join(VERIF, "harness/verif_sched.cc"), sanitize=False, pre=fl)]
    return stage.link_plain(objs, os.path.join(stage.work, "c54"), sanitize=False, libs=["-fsanitize=undefined"])


def build(stage):
    return ProcHarness([build_exe(stage)])


SESSIONS = [["LS", "US"], ["LE", "UE"], ["LH", "UH"], ["LE", "SA", "UE"], ["LE", "SA", "ST", "UE"], ["LE", "SW", "US"], ["LE", "SA", "SW", "US"],
            ["LS", "UX", "UE"], ["LE", "SA", "ST", "SA", "UE"], ["LS", "UX", "SA", "SW", "US"], ["LE", "SA", "ST", "SW", "UX", "UE"], ["LH", "UH", "LS", "US"]]
ALLOPS = ["LS", "LE", "LH", "US", "UE", "UH", "SW", "UX", "SA", "ST"]


def gen_ops(rng):
    ops = []
    for _ in range(rng.range(1, 3)):
        if rng.chance(5, 6):
            ops += rng.choice(SESSIONS)
        else:
            ops += [rng.choice(ALLOPS) for _ in range(rng.range(1, 4))]
    if rng.chance(1, 10):
        ops = ops[:-1]          # may end still holding
    return ops


def gen_schedule(rng, n, steps):
    k = rng.below(4)
    if k == 0:
        return [rng.below(n) for _ in range(steps)]
    if k == 1:      # bursts
        out = []
        while len(out) < steps:
            out += [rng.below(n)] * rng.range(1, 5)
        return out[:steps]
    if k == 2:      # round robin with perturbation
        return [(i + (1 if rng.chance(1, 5) else 0)) % n for i in range(steps)]
    # one thread runs ahead, then the others
    t = rng.below(n)
    return [t] * rng.range(1, steps // 2 + 1) + [rng.below(n) for _ in range(steps // 2)]


def fmt(per, sched):
    return "%d %s %s" % (len(per), ";".join(",".join(o) if o else "-" for o in per), ",".join(map(str, sched)) if sched else "-")


def cases(rng, tier):
    n_rand = 30000 if tier == "thorough" else 4000
    for _ in range(n_rand):
        n = rng.choice([2, 2, 2, 3, 3, 4, 5])
        per = [gen_ops(rng) for _ in range(n)]
        steps = sum(len(o) for o in per) * 4
        yield fmt(per, gen_schedule(rng, n, rng.range(0, steps)))
    # bounded-exhaustive schedules
    pairs = [(["LS", "US"], ["LE", "UE"]), (["LE", "SA", "ST", "UE"], ["LS", "US"]), (["LH", "UH"], ["LH", "UH"]), (["LS", "UX", "UE"], ["LS", "UX", "UE"]),
             (["LE", "SW", "US"], ["LE", "UE"]), (["LE", "SA", "UE"], ["LS", "UX", "UE"])]
    L = 12 if tier == "thorough" else 8
    for a, b in (pairs if tier == "thorough" else pairs[:3]):
        for sched in itertools.product((0, 1), repeat=L):
            yield fmt([a, b], list(sched))
    if tier == "thorough":
        triples = [(["LS", "US"], ["LE", "SA", "UE"], ["LS", "US"]), (["LH", "UH"], ["LE", "UE"], ["LH", "UH"])]
        for tr in triples:
            for sched in itertools.product((0, 1, 2), repeat=8):
                yield fmt(list(tr), list(sched))


def oracle(line, impl):
    if impl.startswith("abort") or impl == "bad-op":
        return "no usable observation: " + impl
    v = impl.rsplit(" viol=", 1)[-1]
    if v != "-":
        return "holder oracle on the real code: " + v
    return None


def nontrivial(line, impl, model):
    log = impl.split(" ")[0][4:]
    tids = {e.split(":")[0] for e in log.split(",") if ":" in e}
    return len(tids) >= 2


def tag(line, impl, model):
    n = line.split(" ")[0]
    res = impl.split(" res=")[-1].split(" ")[0] if " res=" in impl else ""
    fails = res.count("=0")
    return "threads=%s contended=%s" % (n, "yes" if fails else "no")


def shrink(line):
    n, ops, sched = line.split(" ")
    per = [o.split(",") if o != "-" else [] for o in ops.split(";")]
    sc = [int(x) for x in sched.split(",")] if sched != "-" else []
    # drop schedule suffix / elements, drop ops
    for k in (len(sc) // 2, 1):
        if k and len(sc) >= k:
            yield fmt(per, sc[:-k])
    for i in range(len(sc)):
        yield fmt(per, sc[:i] + sc[i + 1:])
    for t in range(len(per)):
        for j in range(len(per[t])):
            p2 = [list(x) for x in per]
            del p2[t][j]
            yield fmt(p2, sc)


def exhaustive(tier):
    return False
