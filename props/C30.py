"""C30 URI parsing is canonical and validates authority (AnyP::Uri::parse / absolute / authority)."""
import os, re, subprocess
from vf.util import VERIF, hx, unhx
from vf.harness import ProcHarness

ID = "C30"
PROP_MODULE = "SquidModel.Properties.C30"
MODEL = "c30"
GEN = ["uri_parse"]


def build_exe(stage):
    if "c30" in getattr(stage, "built", {}):
        return stage.built["c30"]
    objs = [stage.compile(os.path.join(VERIF, "harness", "c30.cc"))]
    objs += stage.compile_many(["src/anyp/UriScheme.cc", "src/parser/Tokenizer.cc", "src/ip/Address.cc",
                                "src/http/RequestMethod.cc", "src/http/MethodType.cc"])
    # tests/stub_libhttp.o stubs HttpRequestMethod; the real http/RequestMethod.cc is used instead: weaken the stub's symbols
    weak = os.path.join(stage.work, "stub_libhttp_weak.o")
    subprocess.run(["objcopy", "--weaken", os.path.join(stage.repo, "src/tests/stub_libhttp.o"), weak], check=True)
    exe = stage.link_like("tests/testURL", objs + [weak], os.path.join(stage.work, "c30"), drop=("tests/stub_libhttp.o",))
    stage.built = getattr(stage, "built", {})
    stage.built["c30"] = exe
    return exe
