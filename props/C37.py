"""C37 DNS message decoding is memory-safe and faithful."""
import os, shlex, subprocess
from vf.util import VERIF, hx, unhx
from vf.harness import ProcHarness
from vf.stage import BuildError

ID = "C37"
PROP_MODULE = "SquidModel.Properties.C37"
MODEL = "c37"
GEN = ["dns_limits"]


def link_like_testdns(stage, objs, out):
    """tests/testDns is built from tests/testRFC1035.cc, so stage.link_like (which derives the source name from the
    program name) finds no recipe: same procedure here with the right source name."""
    d = os.path.join(stage.repo, "src")
    r = subprocess.run(["make", "-n", "-W", "tests/testRFC1035.cc", "tests/testDns"], cwd=d, capture_output=True, text=True)
    line = None
    for l in r.stdout.splitlines():
        if "-o tests/testDns " in l and "--mode=link" in l:
            line = l.strip()
    if line is None:
        raise BuildError("no link recipe for tests/testDns\n" + r.stderr[-2000:])
    res, skip = [], False
    for tk in shlex.split(line):
        if skip:
            skip = False
            continue
        if tk == "-o":
            res += ["-o", out]
            skip = True
        elif tk in ("tests/testRFC1035.o", "tests/testRFC1035.lo"):
            res += list(objs)
        elif tk == "-Werror":
            continue
        else:
            res.append(tk)
    res += ["-fsanitize=address,undefined"]
    r = subprocess.run(res, cwd=d, capture_output=True, text=True)
    if r.returncode != 0:
        raise BuildError("link failed:\n%s\n%s" % (" ".join(shlex.quote(c) for c in res)[:3000], r.stderr[-5000:]))
    return out


def build_exe(stage):
    if "c37" in getattr(stage, "built", {}):
        return stage.built["c37"]
    # harness/c37.cc #includes src/dns/rfc1035.cc (file-static rfc1035NameUnpack); rfc3596.cc and rfc2671.cc are compiled
    # from the stage with the sanitizers and precede the tree's (unsanitized) libdns.la in the link
    # nonnull-attribute reports are made recoverable in this one translation unit: the harness hooks the report, marks the
    # line's output with "ub:..." and goes on, so that the rest of the behaviour is still compared (every other check stays fatal)
    objs = [stage.compile(os.path.join(VERIF, "harness", "c37.cc"), extra=["-fsanitize-recover=nonnull-attribute"]),
            stage.compile(os.path.join(VERIF, "harness", "c37_config.cc")),
            stage.compile("src/dns/rfc3596.cc"),
            stage.compile("src/dns/rfc2671.cc")]
    exe = link_like_testdns(stage, objs, os.path.join(stage.work, "c37"))
    stage.built = getattr(stage, "built", {})
    stage.built["c37"] = exe
    return exe
