"""C37 DNS message decoding is memory-safe and faithful."""
import os, shlex, struct, subprocess
from vf.util import VERIF, hx, unhx
from vf.harness import ProcHarness
from vf.stage import BuildError

ID = "C37"
PROP_MODULE = "SquidModel.Properties.C37"
MODEL = "c37"
GEN = ["dns_limits"]
RULE = ("m <hex> [expect]: rfc1035MessageUnpack on an exact-size heap copy (messages from a reference encoder with random names, "
        "A/AAAA/PTR/CNAME/other records, random/maximal/no compression, trailing sections; boundary packets: label 62..64, name "
        "253..257 octets, pointer chains 1..67 deep, pointer loops, pointers at the packet end, rdlength +-1, counts 0/2/65535, "
        "rcode 1..15; mutations: truncation at every offset, every byte value at every offset of reference packets (thorough), "
        "flips, pointer injection, count tweaks, splices; random datagrams); n <ns> <off> <hex>: static rfc1035NameUnpack with an "
        "exact-size name buffer (all strings <=3 (quick) / <=5 (thorough) over an 8-symbol alphabet x ns x off, random names x ns "
        "around the name size); q ...: query builders of rfc1035.cc/rfc3596.cc into an exact-size buffer, then the real decoder; "
        "h ...: header pack/unpack. non-trivial = the decoder got past the question (m), returned a name (n), built a packet (q/h); "
        "distinct = distinct input lines")
TRUSTED = ["modelled, not verified: memcpy/ntohs/htons/strtok/strlen/snprintf/xstrncpy are given their list/arithmetic meaning in "
           "the model; the C bit-fields of rfc1035_message are modelled as range-restricted naturals; tied by the differential run",
           "the literals 191, 64, 0x3FFF, 12, 10, 4 of rfc1035.cc are read from the source text by regular expressions, the macro "
           "values are printed by the compiled harness"]
ASSUMPTIONS = ["a datagram is shorter than 2^32 - 2^17 octets (`unsigned int off` cannot wrap); host names given to the query "
               "builders are C strings (no NUL) and the packet buffer has room for header + name + 2 + 4 (+ 11 with EDNS) octets, "
               "as in dns_internal.cc (RESOLV_BUFSZ vs NS_MAXDNAME)"]
MANIFEST = {
    "text": "full for memory safety and termination: the Lean model follows rfc1035HeaderUnpack/NameUnpack/QueryUnpack/RRUnpack/"
            "MessageUnpack branch by branch with every buffer access explicit (an access outside the datagram or the name buffer is the "
            "outcome oob, a failed assert is abort, an exhausted iteration budget is fuel) and it is proved for every byte list and every "
            "name-buffer size that none of the three happens (compression loops included: the budget ns+66 always suffices), that all "
            "offsets stay inside the datagram and all names are NUL-terminated inside their buffers. partial for faithfulness: for every "
            "message in the encoder relation (labels 1..63, compression pointers to encoded suffixes anywhere in the datagram, the root "
            "label included, names < 256 octets, at most 65 pointer hops per name) the decoded header, question and A/AAAA/PTR/CNAME/"
            "other records equal the encoded ones, the decoded text determines the labels, header pack/unpack and the packed query (with "
            "and without EDNS, no null memcpy) round-trip; the excluded region is proved as a counterexample and kept as a known finding "
            "(a 66-hop compressed name is rejected: deliberate loop guard). Two defects found here are fixed in /repo (17d6e84 memcpy "
            "from a null RDATA pointer when packing the OPT record; fd17dd6 trailing dot when a label is followed by a pointer to the "
            "root label): the model follows the fixed code (version flags re-read from the source every run), the former counterexamples "
            "are kept as prefix_* theorems and the witnesses as regression cases. The real code runs under ASan/UBSan with exact-size "
            "heap buffers against the model and against a reference encoder and reference decoder written from RFC 1035",
    "note": "trusted: Lean kernel (+axioms as printed), translator of limits and version flags, harness, python reference codec; "
            "specified not verified: libc primitives; not modelled: rfc1035QueryCompare, rfc1035ErrorMessage, heap management of "
            "rfc1035MessageDestroy/RRDestroy (ASan only); not proved: the converse (every accepted name is an encoding)",
    "technique": "Lean 4 proof (induction on the iteration budget with a (name-room, recursion-depth) measure; encoder relation with "
                 "compression, induction on its derivations) + constants translator + ASan/UBSan differential run with reference "
                 "encoder and reference decoder",
}

MAXLABEL = 63
NAMEBUF = 256
MAXHOPS_IMPL = 65          # rfc1035NameUnpack follows at most this many compression pointers per name
T_A, T_NS, T_CNAME, T_PTR, T_MX, T_TXT, T_AAAA, T_OPT = 1, 2, 5, 12, 15, 16, 28, 41


def link_like_testdns(stage, objs, out):
    """tests/testDns is built from tests/testRFC1035.cc, so stage.link_like (which derives the source name from the
    program name) finds no recipe: same procedure here with the right source name."""
    d = os.path.join(stage.repo, "src")
    r = subprocess.run(["make", "-n", "-W", "tests/testRFC1035.cc", "tests/testDns"], cwd=d, capture_output=True, text=True)
    line = None
    for l in r.stdout.splitlines():
        if "-o tests/testDns " in l and "--mode=link" in l:
            line = l.strip()
    if line is None:
        raise BuildError("no link recipe for tests/testDns\n" + r.stderr[-2000:])
    res, skip = [], False
    for tk in shlex.split(line):
        if skip:
            skip = False
            continue
        if tk == "-o":
            res += ["-o", out]
            skip = True
        elif tk in ("tests/testRFC1035.o", "tests/testRFC1035.lo"):
            res += list(objs)
        elif tk == "-Werror":
            continue
        else:
            res.append(tk)
    res += ["-fsanitize=address,undefined"]
    r = subprocess.run(res, cwd=d, capture_output=True, text=True)
    if r.returncode != 0:
        raise BuildError("link failed:\n%s\n%s" % (" ".join(shlex.quote(c) for c in res)[:3000], r.stderr[-5000:]))
    return out


def build_exe(stage):
    if "c37" in getattr(stage, "built", {}):
        return stage.built["c37"]
    # harness/c37.cc #includes src/dns/rfc1035.cc (file-static rfc1035NameUnpack); rfc3596.cc and rfc2671.cc are compiled
    # from the stage with the sanitizers and precede the tree's (unsanitized) libdns.la in the link
    objs = [stage.compile(os.path.join(VERIF, "harness", "c37.cc")),
            stage.compile(os.path.join(VERIF, "harness", "c37_config.cc")),
            stage.compile("src/dns/rfc3596.cc"),
            stage.compile("src/dns/rfc2671.cc")]
    exe = link_like_testdns(stage, objs, os.path.join(stage.work, "c37"))
    stage.built = getattr(stage, "built", {})
    stage.built["c37"] = exe
    return exe


class Harness:
    """ProcHarness without symbolised UBSan stacks (a sanitizer stop is still the result `abort:...` of its line)."""

    def __init__(self, exe):
        self.exe = exe
        self.crashes = 0

    def run(self, lines):
        h = ProcHarness([self.exe], env={"UBSAN_OPTIONS": "print_stacktrace=0:halt_on_error=1:exitcode=86"})
        out = h.run(lines)
        self.crashes += h.crashes
        self.last_stderr = getattr(h, "last_stderr", "")
        return out


def build(stage):
    return Harness(build_exe(stage))


# ---------------------------------------------------------------- canonical text of a decoded message (same as harness/c37.cc)

def show_hdr(h):
    return "id=%d qr=%d op=%d aa=%d tc=%d rd=%d ra=%d rcode=%d qd=%d an=%d ns=%d ar=%d" % (
        h["id"], h["qr"], h["opcode"], h["aa"], h["tc"], h["rd"], h["ra"], h["rcode"], h["qd"], h["an"], h["ns"], h["ar"])


def show_rr(r):
    return "%s/%d/%d/%d/%d/%s" % (hx(r["name"]), r["type"], r["cls"], r["ttl"], r["rdlength"], hx(r["rdata"]))


def show_msg(rc, h, q, rrs):
    return "rc=%d %s q=%s/%d/%d rr=%s" % (rc, show_hdr(h), hx(q["name"]), q["qtype"], q["qclass"],
                                         ",".join(show_rr(r) for r in rrs) if rrs else "-")


def show_decoded(h, q, rrs):
    """what a faithful decoder returns for a well-formed message with these header/question/answer records"""
    if h["rcode"]:
        return show_msg(-h["rcode"], h, q, [])
    if h["an"] == 0:
        return show_msg(0, h, q, [])
    return show_msg(len(rrs), h, q, rrs)


# ---------------------------------------------------------------- reference codec, written from RFC 1035 (independent of squid and of the model)

def join(labels):
    return b".".join(labels)


def presentable(labels):
    return all(1 <= len(l) <= MAXLABEL and b"." not in l and b"\0" not in l for l in labels)


class Enc:
    """Reference encoder. comp: 0 = never compress, 1..99 = chance in percent per compressible suffix, 100 = always."""

    def __init__(self, rng, comp):
        self.b = bytearray()
        self.rng = rng
        self.comp = comp
        self.suffix = {}

    def u16(self, v):
        self.b += struct.pack(">H", v & 0xffff)

    def u32(self, v):
        self.b += struct.pack(">I", v & 0xffffffff)

    def name(self, labels):
        for i in range(len(labels)):
            suf = tuple(labels[i:])
            at = self.suffix.get(suf)
            if at is not None and self.comp and (self.comp >= 100 or self.rng.below(100) < self.comp):
                self.u16(0xC000 | at)
                return
            if suf not in self.suffix and len(self.b) < 0x4000:
                self.suffix[suf] = len(self.b)
            self.b.append(len(labels[i]))
            self.b += labels[i]
        self.b.append(0)

    def parts(self, parts):
        """explicit layout: ("l", bytes) label, ("p", offset) pointer, ("0",) root, ("b", bytes) raw"""
        for p in parts:
            if p[0] == "l":
                self.b.append(len(p[1]) & 0xff)
                self.b += p[1]
            elif p[0] == "p":
                self.u16(0xC000 | (p[1] & 0x3fff))
            elif p[0] == "0":
                self.b.append(0)
            else:
                self.b += p[1]

    def header(self, h):
        flags = (h["qr"] << 15) | (h["opcode"] << 11) | (h["aa"] << 10) | (h["tc"] << 9) | (h["rd"] << 8) | (h["ra"] << 7) | \
                (h.get("z", 0) << 4) | h["rcode"]
        for v in (h["id"], flags, h["qd"], h["an"], h["ns"], h["ar"]):
            self.u16(v)

    def rr(self, r):
        """r: labels|parts, type, cls, ttl, rdata = ("raw", bytes) | ("name", labels) | ("parts", parts); -> decoded view"""
        if "parts" in r:
            self.parts(r["parts"])
        else:
            self.name(r["labels"])
        self.u16(r["type"])
        self.u16(r["cls"])
        self.u32(r["ttl"])
        at = len(self.b)
        self.u16(0)
        kind = r["rdata"][0]
        if kind == "raw":
            self.b += r["rdata"][1]
        elif kind == "name":
            self.name(r["rdata"][1])
        else:
            self.parts(r["rdata"][1])
        n = len(self.b) - at - 2
        n = r.get("rdlength", n)
        self.b[at:at + 2] = struct.pack(">H", n & 0xffff)
        raw = bytes(self.b[at + 2:at + 2 + n])
        name = join(r["name_labels"] if "name_labels" in r else r["labels"])
        if r["type"] == T_PTR and kind != "raw":
            tl = r["rdata_labels"] if "rdata_labels" in r else r["rdata"][1]
            return {"name": name, "type": r["type"], "cls": r["cls"], "ttl": r["ttl"],
                    "rdlength": sum(len(l) + 1 for l in tl), "rdata": join(tl)}
        return {"name": name, "type": r["type"], "cls": r["cls"], "ttl": r["ttl"], "rdlength": n, "rdata": raw}


class NotWF(Exception):
    pass


def ref_name(pkt, off, strict=True):
    """Reference reading of the name at `off`: labels of 1..63 octets, at most 255 octets in all.
    strict: a compression pointer must point to a prior occurrence (before the start of the label sequence being read),
    as RFC 1035 4.1.4 says; this alone excludes loops, any number of hops is fine.
    not strict: a pointer may point anywhere (forwards too), at most 65 hops (the bound of the Lean relation EncName;
    beyond it this reading gives no verdict).
    -> (labels, end of the name in the linear stream, pointer hops, pointer-led-to-root-after-a-label)"""
    labels, hops, end, seg, pos, at_hop = [], 0, None, off, off, None
    while True:
        if pos >= len(pkt):
            raise NotWF()
        c = pkt[pos]
        if c >= 0xC0:
            if pos + 2 > len(pkt):
                raise NotWF()
            tgt = ((c & 0x3f) << 8) | pkt[pos + 1]
            if end is None:
                end = pos + 2
            if strict and tgt >= seg:
                raise NotWF()
            hops += 1
            if not strict and hops > MAXHOPS_IMPL:
                raise NotWF()
            at_hop = len(labels)
            pos = seg = tgt
            continue
        if c > MAXLABEL:
            raise NotWF()
        if c == 0:
            if end is None:
                end = pos + 1
            break
        if pos + 1 + c > len(pkt):
            raise NotWF()
        labels.append(bytes(pkt[pos + 1:pos + 1 + c]))
        pos += 1 + c
    if sum(len(l) + 1 for l in labels) + 1 > 255:
        raise NotWF()
    return labels, end, hops, (at_hop is not None and at_hop == len(labels) and len(labels) > 0)


def ref_decode(pkt, strict=True):
    """Reference reading of header, question and all `ancount` answer records (names by ref_name in the given mode); None
    when the datagram is not a well-formed message in that sense (or a label is not presentable as text: '.' or NUL)."""
    try:
        if len(pkt) < 12:
            raise NotWF()
        idv, flags, qd, an, ns, ar = struct.unpack(">HHHHHH", bytes(pkt[:12]))
        h = {"id": idv, "qr": flags >> 15, "opcode": (flags >> 11) & 15, "aa": (flags >> 10) & 1, "tc": (flags >> 9) & 1,
             "rd": (flags >> 8) & 1, "ra": (flags >> 7) & 1, "rcode": flags & 15, "qd": qd, "an": an, "ns": ns, "ar": ar}
        if qd != 1:
            raise NotWF()
        info = {"hops": 0, "rootptr": [], "deep": []}

        def name_at(off, what):
            labels, end, hops, rootptr = ref_name(pkt, off, strict)
            if not presentable(labels):
                raise NotWF()
            info["hops"] = max(info["hops"], hops)
            if rootptr:
                info["rootptr"].append(what)
            if hops > MAXHOPS_IMPL:
                info["deep"].append(what)
            return labels, end
        ql, off = name_at(12, ("q",))
        if off + 4 > len(pkt):
            raise NotWF()
        qt, qc = struct.unpack(">HH", bytes(pkt[off:off + 4]))
        off += 4
        q = {"name": join(ql), "qtype": qt, "qclass": qc}
        rrs = []
        if h["rcode"] == 0:
            for i in range(an):
                nl, off = name_at(off, ("n", i))
                if off + 10 > len(pkt):
                    raise NotWF()
                ty, cl, ttl, rdl = struct.unpack(">HHIH", bytes(pkt[off:off + 10]))
                off += 10
                if off + rdl > len(pkt):
                    raise NotWF()
                if ty == T_PTR:
                    tl, end = name_at(off, ("d", i))
                    if end != off + rdl:
                        raise NotWF()
                    rrs.append({"name": join(nl), "type": ty, "cls": cl, "ttl": ttl,
                                "rdlength": sum(len(l) + 1 for l in tl), "rdata": join(tl)})
                else:
                    rrs.append({"name": join(nl), "type": ty, "cls": cl, "ttl": ttl, "rdlength": rdl, "rdata": bytes(pkt[off:off + rdl])})
                off += rdl
        return {"h": h, "q": q, "rrs": rrs, "info": info, "show": show_decoded(h, q, rrs)}
    except NotWF:
        return None


def known_deviation(ref):
    """The proved deviation of rfc1035NameUnpack from the reference reading (more than 65 pointer hops are refused),
    applied to a reference decoding: -> (finding id, text the real decoder is expected to print) or None.
    (Pointers to the root label used to be a second one, fixed in /repo fd17dd6: such names must decode faithfully.)"""
    info = ref["info"]
    h, q, rrs = ref["h"], ref["q"], ref["rrs"]
    if info["deep"]:
        # a name needing more than 65 pointer hops is refused: the question -> no message; record i -> records before it
        first = min((-1 if w[0] == "q" else w[1]) for w in info["deep"])
        if first < 0:
            return "C37-deep-pointer-chain-rejected", "rc=-15 null"
        if h["rcode"]:
            return None
        kept = rrs[:first]
        return "C37-deep-pointer-chain-rejected", (show_msg(len(kept), h, q, kept) if kept else "rc=-15 null")
    return None


# ---------------------------------------------------------------- query builders: reference

def host_labels(host):
    return [l for l in host.split(b".") if l]


def wf_host(host):
    ls = host_labels(host)
    return b"\0" not in host and all(len(l) <= MAXLABEL for l in ls) and sum(len(l) + 1 for l in ls) + 1 <= 255


def query_size(host, edns):
    return 12 + sum(min(len(l), MAXLABEL) + 1 for l in host_labels(host)) + 1 + 4 + (11 if edns > 0 else 0)


def ref_query(host, qid, qtype, edns):
    b = struct.pack(">HHHHHH", qid, 0x0100, 1, 0, 0, 1 if edns > 0 else 0)
    for l in host_labels(host):
        b += bytes([len(l)]) + l
    b += b"\0" + struct.pack(">HH", qtype & 0xffff, 1)
    if edns > 0:
        b += b"\0" + struct.pack(">HHIH", T_OPT, min(edns, 16384 - 1), 0, 0)
    return b


def rev4(addr):
    return ("%d.%d.%d.%d.in-addr.arpa." % (addr[3], addr[2], addr[1], addr[0])).encode()


def rev6(addr):
    return "".join("%x.%x." % (addr[i] & 15, addr[i] >> 4) for i in range(15, -1, -1)).encode() + b"ip6.arpa."


def q_parse(toks):
    """-> (host, qtype, edns given to the packer, sz, qid)"""
    api, qid, edns, sz, arg = toks[1], int(toks[2]), int(toks[3]), int(toks[4]), unhx(toks[5])
    if api in ("p35", "p496"):
        host, qtype = rev4(arg), T_PTR
    elif api == "p696":
        host, qtype = rev6(arg), T_PTR
    elif api == "aaaa96":
        host, qtype = arg, T_AAAA
    elif api.startswith("host96:"):
        host, qtype = arg, int(api[7:])
    else:
        host, qtype = arg, T_A
    return host, qtype, edns, sz, qid


# ---------------------------------------------------------------- generators

LABEL_ALPHA = bytes(c for c in range(1, 256) if c != 0x2e)
LDH = b"abcdefghijklmnopqrstuvwxyz0123456789-"


def rand_label(rng, maxlen=12):
    k = rng.below(10)
    n = rng.range(1, maxlen) if k else rng.choice([1, 62, 63])
    return rng.bytes(n, LDH if rng.below(4) else LABEL_ALPHA)


def rand_zone(rng):
    """a pool of names sharing suffixes, so that compression has something to point at"""
    bases = []
    for _ in range(rng.range(1, 3)):
        bases.append([rand_label(rng, 8) for _ in range(rng.range(0, 3))])
    names = []
    for _ in range(rng.range(3, 8)):
        base = rng.choice(bases)
        n = [rand_label(rng) for _ in range(rng.range(0, 3))] + base
        while sum(len(l) + 1 for l in n) + 1 > 255:
            n = n[1:]
        names.append(n)
    return names


def rand_header(rng, an, rcode=None):
    return {"id": rng.below(65536), "qr": rng.below(2) if rng.below(8) == 0 else 1, "opcode": rng.below(16) if rng.below(6) == 0 else 0,
            "aa": rng.below(2), "tc": 1 if rng.below(10) == 0 else 0, "rd": rng.below(2), "ra": rng.below(2), "z": rng.below(8) if rng.below(4) == 0 else 0,
            "rcode": ((rng.choice([3, 2, rng.below(16)]) if rng.below(10) == 0 else 0) if rcode is None else rcode),
            "qd": 1, "an": an, "ns": 0, "ar": 0}


def rand_rr(rng, names, ptr_bias=False):
    k = rng.below(10)
    labels = rng.choice(names)
    ttl = rng.choice([0, 1, 60, 3600, 0x7fffffff, 0x80000000, 0xffffffff, rng.below(1 << 32)])
    cls = 1 if rng.below(8) else rng.below(65536)
    if ptr_bias and k < 6:
        k = 5
    if k < 3:
        return {"labels": labels, "type": T_A, "cls": cls, "ttl": ttl, "rdata": ("raw", rng.bytes(4))}
    if k < 5:
        return {"labels": labels, "type": T_AAAA, "cls": cls, "ttl": ttl, "rdata": ("raw", rng.bytes(16))}
    if k < 7:
        return {"labels": labels, "type": T_PTR, "cls": cls, "ttl": ttl, "rdata": ("name", rng.choice(names))}
    if k < 9:
        return {"labels": labels, "type": T_CNAME, "cls": cls, "ttl": ttl, "rdata": ("name", rng.choice(names))}
    ty = rng.choice([T_NS, T_MX, T_TXT, T_OPT, 0, 255, 65535, rng.below(65536)])
    if ty == T_PTR:
        ty = T_TXT
    return {"labels": labels, "type": ty, "cls": cls, "ttl": ttl, "rdata": ("raw", rng.bytes(rng.choice([0, 1, 2, 5, 40])))}


def gen_valid(rng):
    """-> (packet, expected text of the decoding)"""
    names = rand_zone(rng)
    an = rng.choice([0, 1, 1, 2, 3, 4, 6])
    h = rand_header(rng, an)
    comp = rng.choice([0, 100, 100, 50, 20])
    e = Enc(rng, comp)
    extra = [rand_rr(rng, names) for _ in range(rng.choice([0, 0, 1, 2, 3]))]
    h["ns"] = rng.below(len(extra) + 1)
    h["ar"] = len(extra) - h["ns"]
    q = {"labels": rng.choice(names), "qtype": rng.choice([T_A, T_AAAA, T_PTR, T_CNAME, 255, rng.below(65536)]), "qclass": 1 if rng.below(8) else rng.below(65536)}
    e.header(h)
    e.name(q["labels"])
    e.u16(q["qtype"])
    e.u16(q["qclass"])
    rrs = [e.rr(rand_rr(rng, names, ptr_bias=(q["qtype"] == T_PTR))) for _ in range(an)]
    for r in extra:
        e.rr(r)
    if rng.below(6) == 0:
        e.b += rng.bytes(rng.range(1, 8))    # trailing garbage is not the decoder's business
    return bytes(e.b), show_decoded(h, {"name": join(q["labels"]), "qtype": q["qtype"], "qclass": q["qclass"]}, rrs)


def gen_big(rng):
    """a long response: many records with bulky RDATA, so that compression pointers reach offsets up to 0x3FFF"""
    names = rand_zone(rng) + rand_zone(rng)
    an = rng.range(20, 90)
    h = rand_header(rng, an, rcode=0)
    e = Enc(rng, rng.choice([100, 100, 60]))
    q = {"labels": rng.choice(names), "qtype": 255, "qclass": 1}
    e.header(h)
    e.name(q["labels"])
    e.u16(q["qtype"])
    e.u16(q["qclass"])
    rrs = []
    for i in range(an):
        if rng.below(3) == 0 and len(e.b) < 0x3f00:
            # a fresh name late in the message: later records point at it
            names.append([rand_label(rng, 6)] + rng.choice(names)[-2:])
        k = rng.below(4)
        labels = rng.choice(names[-4:] if rng.below(2) else names)
        if k == 0:
            r = {"labels": labels, "type": T_TXT, "cls": 1, "ttl": i, "rdata": ("raw", rng.bytes(rng.range(100, 250)))}
        elif k == 1:
            r = {"labels": labels, "type": T_PTR, "cls": 1, "ttl": i, "rdata": ("name", rng.choice(names[-4:]))}
        elif k == 2:
            r = {"labels": labels, "type": T_CNAME, "cls": 1, "ttl": i, "rdata": ("name", rng.choice(names))}
        else:
            r = {"labels": labels, "type": T_AAAA, "cls": 1, "ttl": i, "rdata": ("raw", rng.bytes(16))}
        rrs.append(e.rr(r))
    return bytes(e.b), show_decoded(h, {"name": join(q["labels"]), "qtype": 255, "qclass": 1}, rrs)


def with_expect(pkt, text):
    return "m %s %s" % (hx(pkt), text.replace(" ", "|"))


def simple_packet(rng, qlabels, rrs, rcode=0, an=None, comp=100, tail=b"", qparts=None):
    """header + one question + the given records through the reference encoder -> (packet, expected, encoder)"""
    h = rand_header(rng, len(rrs) if an is None else an, rcode=rcode)
    e = Enc(rng, comp)
    e.header(h)
    if qparts is not None:
        e.parts(qparts)
    else:
        e.name(qlabels)
    e.u16(T_A)
    e.u16(1)
    dec = [e.rr(r) for r in rrs]
    e.b += tail
    return bytes(e.b), show_decoded(h, {"name": join(qlabels), "qtype": T_A, "qclass": 1}, dec), e


def chain_packet(rng, depth, kind):
    """Names needing `depth` pointer hops. kind "labels": record j's owner = one label + pointer to record j-1's owner
    (hops = j); kind "bare": owner = bare pointer to the previous owner (pointer-to-pointer chain); the last record is a
    PTR whose target is one more hop away when kind == "ptr"."""
    h = rand_header(rng, depth, rcode=0)
    e = Enc(rng, 0)
    e.header(h)
    e.name([b"z"])
    e.u16(T_A)
    e.u16(1)
    prev_at, prev_labels = 12, [b"z"]
    rrs = []
    for j in range(1, depth + 1):
        at = len(e.b)
        if kind == "bare":
            parts, labels = [("p", prev_at)], prev_labels
        else:
            lab = bytes([97 + j % 26])
            parts, labels = [("l", lab), ("p", prev_at)], [lab] + prev_labels
        if kind == "ptr" and j == depth:
            r = {"parts": [("p", 12)], "name_labels": [b"z"], "type": T_PTR, "cls": 1, "ttl": j,
                 "rdata": ("parts", parts), "rdata_labels": labels}
        else:
            r = {"parts": parts, "name_labels": labels, "type": T_A, "cls": 1, "ttl": j, "rdata": ("raw", bytes([10, 0, j >> 8, j & 255]))}
        rrs.append(e.rr(r))
        prev_at, prev_labels = at, labels
    return bytes(e.b), show_decoded(h, {"name": b"z", "qtype": T_A, "qclass": 1}, rrs)


def gen_boundary(rng, tier):
    out = []

    def A(labels, ttl=1):
        return {"labels": labels, "type": T_A, "cls": 1, "ttl": ttl, "rdata": ("raw", b"\x7f\0\0\1")}

    def PTR(labels, target, **kw):
        r = {"labels": labels, "type": T_PTR, "cls": 1, "ttl": 7, "rdata": ("name", target)}
        r.update(kw)
        return r
    # label sizes 1, 62, 63 in the question, an owner name and a PTR target
    for n in (1, 62, 63):
        lab = bytes([120]) * n
        pkt, exp, _ = simple_packet(rng, [lab, b"com"], [A([lab, b"com"]), PTR([b"q"], [lab, b"net"])], comp=rng.choice([0, 100]))
        out.append(with_expect(pkt, exp))
    # name sizes: 253, 254, 255 octets on the wire are legal names; 256 and 257 are not (no expectation: model and safety only)
    for last in (59, 60, 61, 62, 63):
        labels = [b"a" * 63, b"b" * 63, b"c" * 63, b"d" * last]
        wire = sum(len(l) + 1 for l in labels) + 1
        for comp in (0, 100):
            pkt, exp, _ = simple_packet(rng, labels, [A(labels), PTR([b"p"], labels)], comp=comp)
            out.append(with_expect(pkt, exp) if wire <= 255 else "m " + hx(pkt))
    # 127 one-octet labels (255 octets), and one more
    for n in (126, 127, 128):
        labels = [bytes([97 + i % 26]) for i in range(n)]
        pkt, exp, _ = simple_packet(rng, labels, [PTR(labels[-3:], labels)], comp=rng.choice([0, 100]))
        out.append(with_expect(pkt, exp) if n <= 127 else "m " + hx(pkt))
    # pointer chains: at most 65 hops are followed
    depths = [1, 2, 3, 10, 63, 64, 65, 66, 67] if tier == "thorough" else [1, 2, 10, 64, 65, 66]
    for d in depths:
        for kind in ("labels", "bare", "ptr"):
            pkt, exp = chain_packet(rng, d, kind)
            out.append(with_expect(pkt, exp))
    # pointer loops and stray pointers in the question / owner / PTR target
    hdr = struct.pack(">HHHHHH", 0x1234, 0x8180, 1, 1, 0, 0)
    tail = b"\0\1\0\1"
    loops = [
        b"\xc0\x0c",                       # points at itself
        b"\xc0\x0e\xc0\x0c",               # two-cycle
        b"\x01a\xc0\x0c",                  # label then back to the start: grows until the name buffer is full
        b"\x3fa" + b"b" * 62 + b"\xc0\x0c",
        b"\x01a\xc0\x0d",                  # into the middle of the label
        b"\xc0\x0d",                       # into its own second octet
        b"\xff\xff", b"\xc0", b"\xc0\xff", b"\x40", b"\x80x", b"\xbf", b"\x01",
        b"\x02a", b"\x01a", b"\x00",
    ]
    for l in loops:
        out.append("m " + hx(hdr + l + tail))
        out.append("m " + hx(hdr + l))
        rr = b"\xc0\x0c" + struct.pack(">HHIH", T_PTR, 1, 5, len(l)) + l
        out.append("m " + hx(hdr + b"\x01q\0" + tail + rr))
        out.append("m " + hx(hdr + b"\x01q\0" + tail + l + struct.pack(">HHIH", T_A, 1, 5, 4) + b"\1\2\3\4"))
    # a pointer whose target is the last octet / one past the end / far away
    for tgt_delta in (-1, 0, 1, 1000):
        base = hdr + b"\x01q\0" + tail
        rr_at = len(base)
        total = rr_at + 2 + 10 + 4
        tgt = max(0, min(0x3fff, total + tgt_delta))
        out.append("m " + hx(base + struct.pack(">H", 0xC000 | tgt) + struct.pack(">HHIH", T_A, 1, 5, 4) + b"\1\2\3\4"))
    # rdlength against the end of the datagram and against the PTR name
    base = hdr + b"\x03foo\x03bar\0" + tail
    name = b"\x03abc\xc0\x10"
    for d in (-2, -1, 0, 1, 2):
        rdl = len(name) + d
        out.append("m " + hx(base + b"\xc0\x0c" + struct.pack(">HHIH", T_PTR, 1, 5, max(0, rdl)) + name))
        out.append("m " + hx(base + b"\xc0\x0c" + struct.pack(">HHIH", T_PTR, 1, 5, max(0, rdl)) + name + b"\0\0"))
        out.append("m " + hx(base + b"\xc0\x0c" + struct.pack(">HHIH", T_A, 1, 5, max(0, 4 + d)) + b"\1\2\3\4"))
        out.append("m " + hx(base + b"\xc0\x0c" + struct.pack(">HHIH", T_CNAME, 1, 5, max(0, rdl)) + name))
    for rdl in (0, 1, 255, 256, 65535):
        out.append("m " + hx(base + b"\xc0\x0c" + struct.pack(">HHIH", T_A, 1, 5, rdl) + b"\1" * min(rdl, 300)))
        out.append("m " + hx(base + b"\xc0\x0c" + struct.pack(">HHIH", T_PTR, 1, 5, rdl) + b"\0" * min(rdl, 300)))
    # counts and rcodes
    for qd in (0, 1, 2, 65535):
        for an in (0, 1, 2, 3):
            pkt = struct.pack(">HHHHHH", 7, 0x8180, qd, an, 0, 0) + b"\x01q\0" + tail + (b"\xc0\x0c" + struct.pack(">HHIH", T_A, 1, 5, 4) + b"\1\2\3\4") * 2
            out.append("m " + hx(pkt))
    for rcode in range(0, 16):
        pkt, exp, _ = simple_packet(rng, [b"r", b"code"], [A([b"r", b"code"])] * rng.below(3), rcode=rcode)
        out.append(with_expect(pkt, exp))
        out.append("m " + hx(pkt[:12 + 8]))
    out.append("m " + hx(struct.pack(">HHHHHH", 7, 0x8180, 1, 65535, 65535, 65535) + b"\x01q\0" + tail + b"\xc0\x0c" + struct.pack(">HHIH", T_A, 1, 5, 4) + b"\1\2\3\4"))
    # header sizes
    for n in (0, 1, 11, 12, 13, 16, 17):
        out.append("m " + hx((struct.pack(">HHHHHH", 7, 0x8180, 1, 0, 0, 0) + b"\0" + tail)[:n]))
    # label(s) + pointer to a root label (decoded with a trailing dot before /repo fd17dd6), and a bare pointer to root
    pkt, exp, e = simple_packet(rng, [b"q"], [])
    root_at = 12 + 2
    hh = rand_header(rng, 2, rcode=0)
    e = Enc(rng, 0)
    e.header(hh)
    e.name([b"q"])
    e.u16(T_A)
    e.u16(1)
    r1 = e.rr({"parts": [("l", b"foo"), ("p", root_at)], "name_labels": [b"foo"], "type": T_A, "cls": 1, "ttl": 3, "rdata": ("raw", b"\1\2\3\4")})
    r2 = e.rr({"parts": [("p", root_at)], "name_labels": [], "type": T_PTR, "cls": 1, "ttl": 3,
               "rdata": ("parts", [("l", b"host"), ("l", b"example"), ("p", root_at)]), "rdata_labels": [b"host", b"example"]})
    out.append(with_expect(bytes(e.b), show_decoded(hh, {"name": b"q", "qtype": T_A, "qclass": 1}, [r1, r2])))
    hh = rand_header(rng, 1, rcode=0)
    e = Enc(rng, 0)
    e.header(hh)
    e.name([])
    e.u16(T_A)
    e.u16(1)
    r1 = e.rr({"parts": [("p", 12)], "name_labels": [], "type": T_PTR, "cls": 1, "ttl": 3, "rdata": ("parts", [("p", 12)]), "rdata_labels": []})
    out.append(with_expect(bytes(e.b), show_decoded(hh, {"name": b"", "qtype": T_A, "qclass": 1}, [r1])))
    # labels that are not text (NUL, dot): memory safety and model agreement only
    for lab in (b"a.b", b"a\0b", b"\0", b".", b"..", b"\0\0\0"):
        pkt, exp, _ = simple_packet(rng, [lab, b"x"], [PTR([lab], [b"y", lab])], comp=rng.choice([0, 100]))
        out.append("m " + hx(pkt))
    return out


def mutate(rng, pkt):
    b = bytearray(pkt)
    k = rng.below(9)
    if not b:
        return bytes(b)
    if k == 0:
        for _ in range(rng.range(1, 3)):
            b[rng.below(len(b))] ^= 1 << rng.below(8)
    elif k == 1:
        b[rng.below(len(b))] = rng.choice([0, 1, 63, 64, 0xbf, 0xc0, 0xff, rng.below(256)])
    elif k == 2:
        return bytes(b[:rng.below(len(b) + 1)])
    elif k == 3 and len(b) >= 2:     # inject a pointer
        i = rng.below(len(b) - 1)
        tgt = rng.choice([i, i + 1, max(0, i - 1), 12, rng.below(len(b) + 2), len(b) - 1, len(b)])
        b[i:i + 2] = struct.pack(">H", 0xC000 | (tgt & 0x3fff))
    elif k == 4 and len(b) >= 12:    # counts
        # (a large ancount makes the decoder allocate ancount * sizeof(rfc1035_rr) = up to 18 MB: kept rare, it is slow under ASan)
        f = rng.choice([4, 6, 8, 10])
        big = rng.below(12 if f == 6 else 2) == 0
        b[f:f + 2] = struct.pack(">H", rng.choice([255, 256, 65535, rng.below(65536)]) if big else rng.choice([0, 1, 2, 3, 4, 5]))
    elif k == 5:                     # duplicate a slice
        i = rng.below(len(b))
        j = rng.range(i, min(len(b), i + 20))
        b[j:j] = b[i:j]
    elif k == 6:                     # delete a slice
        i = rng.below(len(b))
        del b[i:rng.range(i, min(len(b), i + 6))]
    elif k == 7 and len(b) > 12:     # a length octet / rdlength +-1
        i = rng.range(12, len(b) - 1)
        b[i] = (b[i] + rng.choice([1, 255])) & 255
    else:
        i = rng.below(len(b))
        b[i:i] = rng.bytes(rng.range(1, 4), bytes([0, 1, 2, 63, 64, 0xc0, 0x0c, 0xff, 97]))
    return bytes(b)


NAME_ALPHA = [0x00, 0x01, 0x02, 0x03, 0xc0, 0x40, 0x61, 0xff]


def name_scope(maxlen):
    """every string up to maxlen over NAME_ALPHA x name-buffer sizes x start offsets"""
    def rec(prefix, n):
        if n == 0:
            yield prefix
            return
        for c in NAME_ALPHA:
            yield from rec(prefix + bytes([c]), n - 1)
    for n in range(0, maxlen + 1):
        for s in rec(b"", n):
            for ns in (1, 2, 3, 4, 6):
                for off in (0, 1):
                    if off <= n:
                        yield "n %d %d %s" % (ns, off, hx(s))


def rand_name_line(rng):
    """an encoded name (sometimes compressed, sometimes broken) and a name buffer around its size"""
    e = Enc(rng, rng.choice([0, 100, 50]))
    e.b += rng.bytes(rng.range(0, 4))
    names = rand_zone(rng)
    for n in names[:-1]:
        e.name(n)
    off = len(e.b)
    labels = names[-1]
    e.name(labels)
    e.b += rng.bytes(rng.range(0, 3))
    pkt = bytes(e.b)
    if rng.below(3) == 0:
        pkt = mutate(rng, pkt)
    total = sum(len(l) + 1 for l in labels)
    ns = max(1, total + rng.choice([-2, -1, 0, 1, 2, 3, 10])) if rng.below(4) else rng.choice([1, 2, 63, 64, 255, 256, 257, 1000])
    if rng.below(8) == 0:
        off = rng.below(len(pkt) + 2)
    return "n %d %d %s" % (ns, off, hx(pkt))


def rand_host(rng):
    k = rng.below(12)
    if k < 7:
        return join([rng.bytes(rng.range(1, 12), LDH) for _ in range(rng.range(1, 5))]) + (b"." if rng.below(5) == 0 else b"")
    if k == 7:
        return join([rng.bytes(rng.choice([1, 62, 63]), LDH) for _ in range(rng.range(1, 4))])
    if k == 8:      # names of 253..255 octets on the wire
        last = rng.choice([59, 60, 61])
        return join([b"a" * 63, b"b" * 63, b"c" * 63, b"d" * last])
    if k == 9:      # not well-formed host names: empty labels, long labels, long names
        return rng.choice([b"", b".", b"..", b"a..b", b".a", b"a" * 64, b"a" * 64 + b".com", b"x." + b"b" * 200,
                           join([b"a" * 63] * 4), join([b"a" * 63] * 5), join([b"ab"] * 100), b"a" * 300])
    if k == 10:
        return join([rng.bytes(rng.range(1, 6), LABEL_ALPHA) for _ in range(rng.range(1, 4))])
    return rng.bytes(rng.range(0, 20), b"ab.-")


def q_line(rng, force_edns=None, small_ok=True):
    api = rng.choice(["a35", "a35", "a96", "aaaa96", "p35", "p496", "p696", "host96:%d" % rng.choice([1, 28, 12, 255, 0, 65535, 65536 + 28])])
    qid = rng.choice([0, 1, 0x1234, 65535, rng.below(65536)])
    edns = rng.choice([0, 0, 0, 0, 0, 0, 0, -1, 1, 512, 4096, 16383, 16384, 65535, 100000]) if force_edns is None else force_edns
    if api in ("p35", "p496"):
        arg = rng.choice([bytes(4), b"\x7f\0\0\1", b"\xff\xff\xff\xff", rng.bytes(4)])
    elif api == "p696":
        arg = rng.choice([bytes(16), b"\xff" * 16, rng.bytes(16)])
    else:
        arg = rand_host(rng)
    host = q_parse(["q", api, str(qid), str(edns), "0", hx(arg)])[0]
    need = query_size(host, edns)
    # a buffer that is too small ends in assert() = one harness restart: kept rare (small_ok)
    k = rng.below(10)
    if k == 9 and not small_ok:
        k = 0
    sz = need if k < 3 else rng.choice([512, need + 1, need + 100, 6000]) if k < 9 else rng.choice([0, 11, 12, 13, max(0, need - 30)])
    # the window where the name fits but the four type/class octets (or the OPT record) do not is a violated precondition
    # of the packers (they store before they assert): not generated
    name_end = 12 + query_size(host, 0) - 16
    if sz < need and sz >= name_end:
        sz = need
    return "q %s %d %d %d %s" % (api, qid, edns, sz, hx(arg))


def h_line(rng):
    v = [rng.choice([0, 1, 65535, rng.below(65536)]), rng.below(2), rng.below(16), rng.below(2), rng.below(2), rng.below(2), rng.below(2), rng.below(16)]
    v += [rng.choice([0, 1, 65535, rng.below(65536)]) for _ in range(4)]
    return "h " + " ".join(str(x) for x in v)


def cases(rng, tier):
    thorough = tier == "thorough"
    # --- boundary packets
    for l in gen_boundary(rng.fork("boundary"), tier):
        yield l
    # --- valid messages from the reference encoder, and mutants of them
    r = rng.fork("valid")
    nvalid = 12000 if thorough else 1500
    keep = []
    for i in range(nvalid):
        pkt, exp = gen_valid(r)
        yield with_expect(pkt, exp)
        if len(keep) < (400 if thorough else 60):
            keep.append(pkt)
        for _ in range(2):
            m = mutate(r, pkt)
            if r.below(4) == 0:
                m = mutate(r, m)
            yield "m " + hx(m)
    # --- long messages (pointer targets beyond 1 KB, up to the 14-bit limit)
    r = rng.fork("big")
    for i in range(150 if thorough else 12):
        pkt, exp = gen_big(r)
        yield with_expect(pkt, exp)
        yield "m " + hx(mutate(r, pkt))
    # --- truncation at every offset; every value at every offset
    r = rng.fork("trunc")
    for pkt in keep[:(120 if thorough else 8)]:
        for n in range(len(pkt)):
            yield "m " + hx(pkt[:n])
    small = sorted(keep, key=len)
    for pkt in small[:(3 if thorough else 1)]:
        values = range(256) if thorough else (0, 1, 63, 64, 0xbf, 0xc0, 0xc1, 0xff, 12, len(pkt) - 1, len(pkt))
        for i in range(len(pkt)):
            for v in values:
                if i == 6 and (v & 0xff) > 8:
                    continue    # ancount >= 2304: 18 MB allocations, see mutate()
                if v & 0xff != pkt[i]:
                    yield "m " + hx(pkt[:i] + bytes([v & 0xff]) + pkt[i + 1:])
    # --- splices of two messages
    for i in range(400 if thorough else 60):
        a, b = r.choice(keep), r.choice(keep)
        yield "m " + hx(a[:r.below(len(a) + 1)] + b[r.below(len(b) + 1):])
    # --- random datagrams behind a plausible header
    for i in range(3000 if thorough else 300):
        n = r.range(0, 60)
        body = r.bytes(n, bytes([0, 0, 1, 2, 3, 12, 13, 14, 63, 64, 0xc0, 0xc0, 0xff, 97, 98]))
        hdr = struct.pack(">HHHHHH", r.below(65536), r.choice([0x8180, 0x8180, 0x0100, r.below(65536)]), r.choice([1, 1, 1, 1, 0, 2]),
                          r.choice([0, 1, 2, 3, 4]) if r.below(40) else 65535, r.below(3), r.below(3))
        yield "m " + hx(hdr + body)
    # --- rfc1035NameUnpack directly: exhaustive small scope, then random names around the buffer size
    for l in name_scope(5 if thorough else 3):
        yield l
    r = rng.fork("names")
    for i in range(20000 if thorough else 1500):
        yield rand_name_line(r)
    # --- query builders and header pack/unpack
    r = rng.fork("pack")
    for i in range(4000 if thorough else 500):
        yield q_line(r, small_ok=(i % (8 if thorough else 4) == 0))
    for i in range(300 if thorough else 60):
        yield q_line(r, force_edns=r.choice([1, 512, 1232, 4096, 16383, 16384, 65535]))
    for i in range(2000 if thorough else 200):
        yield h_line(r)
    for rest in range(256) if thorough else ():
        # every flag combination
        yield "h 4660 %d %d %d %d %d %d %d 1 2 3 4" % (rest >> 7, (rest >> 3) & 15, (rest >> 2) & 1, (rest >> 1) & 1, rest & 1, (rest >> 4) & 1, (rest * 7) & 15)


def exhaustive(tier):
    return True   # all byte strings up to 3 (quick) / 5 (thorough) over the 8-symbol alphabet x ns x off for rfc1035NameUnpack


# ---------------------------------------------------------------- oracle

UB_WHY = "undefined behaviour: memcpy called with a null pointer"


def split_ub(out):
    if out.startswith("ub:"):
        a, _, b = out.partition(" ")
        return a, b
    return None, out


def parse_fields(text):
    d = {}
    for tk in text.split(" "):
        if "=" in tk:
            k, _, v = tk.partition("=")
            d[k] = v
    return d


def oracle(line, impl):
    toks = line.split(" ")
    op = toks[0]
    if impl.startswith("abort:"):
        if op == "q":
            host, qtype, edns, sz, qid = q_parse(toks)
            if sz < query_size(host, edns) and "anitizer" not in impl:
                return None     # assert(): the caller's buffer is too small
        return "sanitizer/abort: " + impl
    ub, body = split_ub(impl)
    why = None
    if op == "m":
        why = oracle_m(toks, body)
    elif op == "n":
        why = oracle_n(toks, body)
    elif op == "q":
        why = oracle_q(toks, body)
    elif op == "h":
        why = oracle_h(toks, body)
    if why:
        return why
    if ub:
        return UB_WHY + " (" + ub + ")"
    return None


def oracle_m(toks, impl):
    pkt = unhx(toks[1])
    if not impl.startswith("rc="):
        return "unparsable output " + impl[:80]
    if len(toks) > 2:
        exp = toks[2].replace("|", " ")
        if impl != exp:
            return "decoded message differs from the encoded one: expected " + exp[:300]
    ref = ref_decode(pkt)
    if ref is not None and impl != ref["show"]:
        return "well-formed message (strict RFC 1035 reading) decoded differently: expected " + ref["show"][:300]
    if ref is None:
        ref = ref_decode(pkt, strict=False)
        if ref is not None and impl != ref["show"]:
            return "well-formed message (pointers in any direction, <= 65 hops) decoded differently: expected " + ref["show"][:300]
    f = parse_fields(impl)
    rc = int(f["rc"])
    if impl.endswith(" null"):
        if rc >= 0:
            return "no message returned with a non-negative result"
        return None
    nrr = 0 if f["rr"] == "-" else len(f["rr"].split(","))
    if rc > 0 and (nrr != rc or rc > int(f["an"])):
        return "returned count does not match the records / exceeds ancount"
    if rc < 0 and -rc != int(f["rcode"]):
        return "negative result with a message is not -rcode"
    if "!unterminated" in impl or "null" in f["rr"] or f["q"].startswith("null"):
        return "unterminated name or missing rdata in a returned record"
    return None


def n_reference(toks):
    """strict reading of an `n` line -> (labels, end, hops, rootptr, total) when the name is well-formed and fits, else None"""
    ns, off, pkt = int(toks[1]), int(toks[2]), unhx(toks[3])
    try:
        labels, end, hops, rootptr = ref_name(pkt, off)
    except NotWF:
        try:
            labels, end, hops, rootptr = ref_name(pkt, off, strict=False)
        except NotWF:
            return None
    total = sum(len(l) + 1 for l in labels)
    if not presentable(labels) or not (total < ns or (total == 0 and ns >= 1)):
        return None
    return labels, end, hops, rootptr, total


def n_faithful(ref, impl):
    """the name, as a C string, and the offsets are those encoded"""
    labels, end, hops, rootptr, total = ref
    if not impl.startswith("ok "):
        return False
    f = parse_fields(impl)
    out = unhx(f["out"])
    return int(f["off"]) == end and int(f["rdl"]) == total and out.split(b"\0")[0] == join(labels) and b"\0" in out


def oracle_n(toks, impl):
    ns, off, pkt = int(toks[1]), int(toks[2]), unhx(toks[3])
    ref = n_reference(toks)
    if ref is not None and not n_faithful(ref, impl):
        return "well-formed name decoded differently: expected off=%d rdl=%d name=%s" % (ref[1], ref[4], hx(join(ref[0])))
    if impl == "err":
        return None
    if not impl.startswith("ok "):
        return "unparsable output " + impl[:80]
    f = parse_fields(impl)
    out = unhx(f["out"])
    if len(out) > ns or not out.endswith(b"\0") or int(f["off"]) > len(pkt) or int(f["rdl"]) > ns:
        return "name result outside its buffers"
    return None


def oracle_q(toks, impl):
    host, qtype, edns, sz, qid = q_parse(toks)
    if impl == "reject:nul":
        return None if b"\0" in host else "NUL-free host rejected"
    need = query_size(host, edns)
    if sz < need:
        return "packer did not stop although the buffer is too small"
    if " dec: " not in impl:
        return "unparsable output " + impl[:80]
    first, _, dec = impl.partition(" dec: ")
    f = parse_fields(first)
    if int(f["len"]) != need:
        return "packed length %s, expected %d" % (f["len"], need)
    if f["query"] != "%s/%d/1" % (hx(host[:NAMEBUF - 1]), qtype & 0xffff):
        return "query structure does not describe the request"
    if not wf_host(host):
        return None
    pkt = unhx(f["pkt"])
    if pkt != ref_query(host, qid, qtype, edns):
        return "packed query differs from the reference encoding"
    h = {"id": qid, "qr": 0, "opcode": 0, "aa": 0, "tc": 0, "rd": 1, "ra": 0, "rcode": 0, "qd": 1, "an": 0, "ns": 0, "ar": 1 if edns > 0 else 0}
    exp = show_msg(0, h, {"name": join(host_labels(host)), "qtype": qtype & 0xffff, "qclass": 1}, [])
    if dec != exp:
        return "packed query does not decode back to itself: expected " + exp
    return None


def oracle_h(toks, impl):
    v = [int(x) for x in toks[1:13]]
    flags = (v[1] << 15) | (v[2] << 11) | (v[3] << 10) | (v[4] << 9) | (v[5] << 8) | (v[6] << 7) | v[7]
    pkt = struct.pack(">HHHHHH", v[0], flags, v[8], v[9], v[10], v[11])
    h = dict(zip(["id", "qr", "opcode", "aa", "tc", "rd", "ra", "rcode", "qd", "an", "ns", "ar"], v))
    exp = "pkt=%s %s" % (hx(pkt), show_hdr(h))
    return None if impl == exp else "header does not round-trip: expected " + exp


def compare(line, impl, model):
    mub, mbody = split_ub(model)
    iub, ibody = split_ub(impl)
    if iub and not mub:
        return False
    if mub:              # the model says the C code has undefined behaviour here: any behaviour of the real code is allowed
        return True if ibody.startswith("abort:") else ibody == mbody
    if model == "abort":
        return impl.startswith("abort:") and "anitizer" not in impl
    if impl == model:
        return True
    # on the inputs where the model (= the code as it is) is proved to depart from the property (names needing more than
    # 65 pointer hops), a repaired implementation may give the faithful answer instead of the model's
    toks = line.split(" ")
    if toks[0] == "m":
        ref = ref_decode(unhx(toks[1]))
        return ref is not None and known_deviation(ref) is not None and impl == ref["show"]
    if toks[0] == "n":
        ref = n_reference(toks)
        return ref is not None and ref[2] > MAXHOPS_IMPL and n_faithful(ref, impl)
    return False


def classify(line, impl, why):
    """only C37-deep-pointer-chain-rejected is a known finding; the memcpy(NULL) of the OPT record (17d6e84) and the
    trailing dot behind a pointer to the root label (fd17dd6) are fixed: if they come back they are violations"""
    toks = line.split(" ")
    why = why or ""
    if toks[0] == "m" and ("decoded differently" in why or "differs from the encoded" in why):
        ref = ref_decode(unhx(toks[1]))
        if ref is None:
            return None
        dev = known_deviation(ref)
        if dev and impl == dev[1] and (len(toks) < 3 or toks[2].replace("|", " ") == ref["show"]):
            return dev[0]
        return None
    if toks[0] == "n" and "decoded differently" in why:
        ref = n_reference(toks)
        if ref is None:
            return None
        labels, end, hops, rootptr, total = ref
        if hops > MAXHOPS_IMPL and impl == "err":
            return "C37-deep-pointer-chain-rejected"
    return None


def shrink(line):
    """delta debugging over the byte string only (the decimal fields are not hex; an expectation does not survive a cut)"""
    toks = line.split(" ")
    if toks[0] == "m":
        if len(toks) > 2:
            yield "m " + toks[1]
            return
        idx = 1
    elif toks[0] == "n":
        idx = 3
    elif toks[0] == "q":
        idx = 5
    else:
        return
    tk = toks[idx]
    if tk == "-":
        return
    n = len(tk) // 2
    step = max(1, n // 2)
    while step >= 1:
        for off in range(0, n, step):
            cand = tk[:off * 2] + tk[(off + step) * 2:]
            yield " ".join(toks[:idx] + [cand or "-"] + toks[idx + 1:])
        step //= 2


def nontrivial(line, impl, model):
    op = line[0]
    _, body = split_ub(impl)
    if op == "m":
        return body.startswith("rc=") and not body.endswith(" null")
    if op == "n":
        return body.startswith("ok ")
    return body.startswith("len=") or body.startswith("pkt=")


def tag(line, impl, model):
    toks = line.split(" ")
    op = toks[0]
    ub, body = split_ub(impl)
    if impl.startswith("abort:"):
        return op + " abort"
    if op == "m":
        src = "encoded" if len(toks) > 2 else "mutant"
        if body.endswith(" null"):
            return "m %s rejected" % src
        f = parse_fields(body)
        rc = int(f["rc"])
        comp = "compressed" if "c0" in toks[1][24:] else "plain"
        if rc < 0:
            return "m %s rcode" % src
        if rc == 1:
            t = f["rr"].split("/")[1]
            return "m %s %s an=1 %s" % (src, comp, {"1": "A", "28": "AAAA", "12": "PTR", "5": "CNAME"}.get(t, "other"))
        return "m %s %s an=%s" % (src, comp, "0" if rc == 0 else "2+")
    if op == "n":
        return "n " + ("ok" if body.startswith("ok") else "err")
    if op == "q":
        return "q %s%s" % (toks[1].split(":")[0], " edns" if int(toks[3]) > 0 else "")
    return op


KNOWN_MUST_MATCH_MODEL = True   # inside a known finding's region the observation must still equal the model's (which reproduces the listed defect); see lib/vf/run.py
