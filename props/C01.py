"""C01 Response bodies are relayed byte-exactly with correct framing (end to end)."""
import re
from e2e import rig
from harness import c01 as H

ID = "C01"
PROP_MODULE = "SquidModel.Properties.C01"
MODEL = "c01"
GEN = ["relay_flags"]
RULE = ("scenario = cache mode (none / memory / disk, cached ones fetched twice) x client version (1.1, 1.0, 1.0+keep-alive) x status x origin framing "
        "(Content-Length, chunked with random chunk sizes / extensions / trailers / hex case / leading zeros, close-delimited) x body size (0..MBs, around the 4 KB store "
        "read, the 4 KB memory page, 16/32/64 KB buffers) x origin write segmentation (incl. a split at every offset of the head, byte-by-byte starts, stalls) x "
        "premature end at random / every offset (FIN or RST) x malformed chunk framing x octets beyond Content-Length x bodyless statuses and HEAD; "
        "non-trivial = a body of at least one octet is expected; distinct = distinct scenario lines")
TRUSTED = ["modelled, not verified: Comm I/O scheduling and timeouts, the reply header rewriting (tied by C04/C26), ENTRY_ABORTED paths, adaptation, delay pools, "
           "Range requests served by Squid (C15); the chunked decoder model and its Gen tables are tied to the code by C24's check",
           "python rig: origin stub with TCP_NODELAY writes, strict client-side reader (harness/c01.py)"]
ASSUMPTIONS = ["default configuration apart from the cache settings; forward-proxy GET/HEAD to a loopback origin; one client per entry at a time",
               "an HTTP/1.0 client that gets a close-delimited reply cannot see truncation (inherent; such replies are only required to be prefixes)"]
MANIFEST = {
    "engine": "e2e",
    "text": "partial: for the response relay state machine (HttpStateData body intake incl. truncateVirginBody / chunked decoding / premature EOF, FwdState completion, the store as "
            "an append-only list, store_client answers of any size, buildReplyHeader framing choice, handleReply/packChunk, replyStatus/socketState/writeComplete) and EVERY interleaving "
            "of origin reads, EOF/errors and client-side store reads: body_is_prefix_of_origin_body, complete_implies_equal (client message complete by its own framing => body equals the "
            "origin's body and the origin message was whole), last_chunk_only_after_whole_reply, keepalive_implies_complete_partial / truncation_is_visible_partial (excluded: Content-Range "
            "end test on framed replies), bodyless_reply_has_no_octets_partial (excluded: octets following a 204/304 header), whole_reply_is_delivered, chunked_wire_is_in_grammar "
            "(Squid's own chunked output is in the C24 grammar, so the verified decoder decodes it to the body), segmentation independence of the stored body. "
            "Tied to the rebuilt binary by end-to-end scenarios whose strict client-side observation must equal the model's, and a direct oracle computed from the scenario alone.",
    "note": "trusted: Lean kernel, python rig, loopback TCP. Not modelled: Comm scheduling, timeouts, aborts by the client, adaptation, delay pools, collapsed forwarding",
    "technique": "Lean 4 invariants over event histories of the relay model (composed with the C24 decoder theorems) + end-to-end scenario correspondence with the rebuilt squid",
}
MINIMISE_BUDGET = 24
MAX_REPORT = 6

F_BODYLESS = "C01-bodyless-reply-relays-trailing-octets"
F_CRANGE = "C01-content-range-ends-framed-reply"


def build(stage):
    return GuardedHarness(stage)


class GuardedHarness(H.Harness):
    """flake guard: a scenario whose observation fails the direct oracle is re-run (up to twice); the first passing observation counts"""

    def run(self, lines):
        outs = super().run(lines)
        for attempt in range(2):
            bad = [i for i, (l, o) in enumerate(zip(lines, outs)) if not o.startswith("abort") and o != "bad-op" and oracle(l, o)
                   and not classify(l, o, oracle(l, o))]
            if not bad or len(bad) > 12:
                break
            again = super().run([lines[i] for i in bad])
            for i, o in zip(bad, again):
                if not oracle(lines[i], o):
                    outs[i] = o
        return outs


# ------------------------------------------------------------------------------------------------ generators

def xs(b):
    return "x" + b.hex()


EXTS = [b"", b"", b"", b";a=b", b";name", b';q="x y"', b";a=b;c=d", b' ; x = "q\\"z"', b";\tfoo=bar"]
TRAILERS = [b"", b"", b"", b"X-Trailer: v\r\n", b"A: 1\r\nB: 2\r\n"]


def chunk_sizes(rng, n):
    """a partition of n into chunk sizes"""
    if n == 0:
        return []
    k = rng.below(6)
    if k == 0:
        return [n]
    if k == 1:
        out, left = [], n
        while left:
            s = min(left, rng.range(1, max(1, min(left, 9000))))
            out.append(s)
            left -= s
            if len(out) > 300:
                out.append(left)
                break
        return [s for s in out if s]
    if k == 2:
        step = rng.choice([1, 2, 7, 255, 4095, 4096, 4097, 16384, 65536])
        step = max(step, n // 400 + 1)
        return [step] * (n // step) + ([n % step] if n % step else [])
    if k == 3:
        a = rng.range(1, n)
        return [s for s in (a, n - a) if s]
    if k == 4:
        return [1] * min(n, 8) + ([n - 8] if n > 8 else [])
    s = rng.choice([4096, 4095, 4097, 8192])
    return [s] * (n // s) + ([n % s] if n % s else [])


def size_token(rng, n):
    k = rng.below(5)
    if k == 0:
        return b"%x" % n
    if k == 1:
        return b"%X" % n
    if k == 2:
        return b"0" * rng.range(1, 3) + b"%x" % n
    if k == 3:
        return (b"%x" % n).swapcase()
    return b"%X" % n


def chunked_pieces(rng, sizes, plain=False):
    ps = []
    for s in sizes:
        ext = b"" if plain else rng.choice(EXTS)
        ps += [xs(size_token(rng, s) + ext + b"\r\n"), "d%d" % s, xs(b"\r\n")]
    last = (b"0" if plain or rng.chance(3, 4) else b"000") + (b"" if plain else rng.choice(EXTS)) + b"\r\n" + (b"" if plain else rng.choice(TRAILERS)) + b"\r\n"
    ps.append(xs(last))
    return ps


def wire_len(pieces):
    n = 0
    for p in pieces:
        n += int(p[1:]) if p[0] == "d" else (len(p) - 1) // 2
    return n


SIZES_Q = [0, 1, 2, 100, 4095, 4096, 4097, 8191, 8192, 8193, 16383, 16384, 16385, 32767, 32768, 32769, 65535, 65536, 65537, 100000]
SIZES_T = SIZES_Q + [131071, 131072, 131073, 262144, 524289, 1048576 + 3, 3 * 1048576 + 1]
STATUSES = [200, 200, 200, 203, 206, 301, 404, 500, 503]
HEADLEN = 110   # a lower bound of the origin head length (splits beyond the real head are clipped by the harness)


def segs_for(rng, n):
    if n <= 1:
        return []
    if n > 200000:      # keep the model driver's cost linear-ish for the MB-sized bodies
        return sorted({rng.range(1, n - 1) for _ in range(rng.range(0, 12))})
    k = rng.below(6)
    if k == 0:
        return []
    if k == 1:
        return sorted({rng.range(1, n - 1) for _ in range(rng.range(1, 6))})
    if k == 2:
        return list(range(1, min(n, 14)))
    if k == 3:
        step = rng.choice([1, 7, 100, 1460, 4096, 16384, 65536])
        step = max(step, n // 120 + 1)
        return list(range(step, n, step))
    if k == 4:
        return [n - 1]
    return sorted({rng.range(1, n - 1) for _ in range(rng.range(10, 40))})


def mk(cache, ver, method, status, ofr, seed, pieces, cut="-", end="keep", hsplit="-", segs=(), stall="-", hv=0):
    return "%s %s %s %d %s %d %s %s %s %s %s %s %d" % (cache, ver, method, status, ofr, seed, ",".join(pieces) if pieces else "-", cut, end, hsplit,
                                                       ",".join(map(str, segs)) if segs else "-", stall, hv)


def valid_case(rng, tier, sizes):
    n = rng.choice(sizes) if rng.chance(2, 3) else rng.range(0, 70000)
    cache = rng.choice(["n", "n", "n", "m", "d"])
    ver = rng.choice(["11", "11", "11", "11", "10", "10k"])
    status = rng.choice(STATUSES)
    seed = rng.below(1 << 20)
    fk = rng.below(3)
    hv = rng.choice([0, 0, 1, 3]) if fk != 1 else rng.choice([0, 0, 1])
    if fk == 0:
        ofr, pieces = "cl:%d" % n, (["d%d" % n] if n else [])
        end = rng.choice(["keep", "keep", "fin"])
    elif fk == 1:
        ofr, pieces = "ch", chunked_pieces(rng, chunk_sizes(rng, n))
        end = rng.choice(["keep", "keep", "fin"])
    else:
        ofr, pieces, end = "close", (["d%d" % n] if n else []), "fin"
    if hv == 3 and end == "keep":
        end = "fin"
    w = wire_len(pieces)
    segs = segs_for(rng, w)
    stall = rng.range(1, 3) if segs and rng.chance(1, 10) else "-"
    hsplit = str(rng.range(1, HEADLEN)) if rng.chance(1, 5) else "-"
    return mk(cache, ver, "GET", status, ofr, seed, pieces, "-", end, hsplit, segs, stall, hv)


def truncated_case(rng, small):
    n = rng.range(1, 60) if small else rng.choice([100, 4096, 5000, 16385, 70000])
    seed = rng.below(1 << 20)
    cache = rng.choice(["n", "n", "m", "d"])
    ver = rng.choice(["11", "11", "11", "10"])
    if rng.chance(1, 2):
        ofr, pieces = "ch", chunked_pieces(rng, chunk_sizes(rng, n))
    else:
        ofr, pieces = "cl:%d" % n, ["d%d" % n]
    w = wire_len(pieces)
    cut = rng.range(0, w - 1)
    end = rng.choice(["fin", "fin", "fin", "rst"])
    return mk(cache, ver, "GET", rng.choice([200, 404]), ofr, seed, pieces, str(cut), end, "-", segs_for(rng, cut), "-", 0)


def mutated_chunked(rng):
    """clearly malformed chunk framing: squid must not present the result as a complete message"""
    n = rng.range(2, 40)
    a = rng.range(1, n - 1)
    seed = rng.below(1 << 20)
    k = rng.below(8)
    good = [xs(b"%x\r\n" % a), "d%d" % a, xs(b"\r\n")]
    rest = n - a
    if k == 0:
        bad = [xs(b"%xg\r\n" % rest), "d%d" % rest, xs(b"\r\n0\r\n\r\n")]                 # non-hex octet in the size
    elif k == 1:
        bad = [xs(b"%x\r\n" % rest), "d%d" % rest, xs(b"XY0\r\n\r\n")]                     # no CRLF after chunk data
    elif k == 2:
        bad = [xs(b"0x%x\r\n" % rest), "d%d" % rest, xs(b"\r\n0\r\n\r\n")]                # 0x prefix
    elif k == 3:
        bad = [xs(b"-%x\r\n" % rest), "d%d" % rest, xs(b"\r\n0\r\n\r\n")]                 # sign
    elif k == 4:
        bad = [xs(b"%x\n" % rest), "d%d" % rest, xs(b"\n0\n\n")]                          # bare LF line ends
    elif k == 5:
        bad = [xs(b"8000000000000000\r\n"), "d%d" % rest, xs(b"\r\n0\r\n\r\n")]            # size beyond 63 bits
    elif k == 6:
        bad = [xs(b"%x;=v\r\n" % rest), "d%d" % rest, xs(b"\r\n0\r\n\r\n")]               # extension without a name
    else:
        bad = [xs(b"%x\r\n" % (rest + 3)), "d%d" % rest, xs(b"\r\n0\r\n\r\n")]            # size larger than the data: the terminator is swallowed
    return mk(rng.choice(["n", "n", "m"]), "11", "GET", 200, "ch", seed, good + bad, "-", "fin", "-", segs_for(rng, wire_len(good + bad)), "-", 0)


def extras_case(rng):
    n = rng.choice([0, 1, 10, 4096, 5000])
    extra = rng.choice([1, 2, 50, 5000])
    return mk(rng.choice(["n", "m"]), rng.choice(["11", "10k"]), "GET", 200, "cl:%d" % n, rng.below(1 << 20), ["d%d" % (n + extra)], "-", rng.choice(["fin", "keep"]),
              "-", segs_for(rng, n + extra), "-", 0)


def bodyless_case(rng, with_octets):
    status = rng.choice([204, 304])
    seed = rng.below(1 << 20)
    ofr = rng.choice(["close", "cl:0", "ch"])
    if with_octets:
        if ofr == "ch":
            pieces = [xs(b"4\r\nEVIL\r\n0\r\n\r\n")]
        else:
            pieces = [xs(b"HTTP/1.1 200 OK\r\nContent-Length: 4\r\n\r\nEVIL")] if rng.chance(1, 2) else ["d%d" % rng.range(1, 30)]
    else:
        pieces = []
    return mk("n", rng.choice(["11", "10k"]), "GET", status, ofr, seed, pieces, "-", rng.choice(["keep", "fin"]), "-", (), "-", 0)


def head_case(rng):
    n = rng.choice([0, 10, 5000])
    ofr = rng.choice(["cl:%d" % n, "ch", "close"])
    return mk(rng.choice(["n", "m"]), rng.choice(["11", "10k"]), "HEAD", rng.choice([200, 404]), ofr, rng.below(1 << 20), [], "-", "fin" if ofr == "close" else "keep", "-", (), "-", 0)


def crange_case(rng, chunked):
    n = rng.choice([5, 4096, 10000])
    seed = rng.below(1 << 20)
    if chunked:
        return mk("n", "11", "GET", 206, "ch", seed, chunked_pieces(rng, chunk_sizes(rng, n), plain=True), "-", "keep", "-", (), "-", 2)
    return mk("n", rng.choice(["11", "10k"]), "GET", 206, "cl:%d" % n, seed, ["d%d" % n], "-", "keep", "-", segs_for(rng, n), "-", 2)


def headcut_case(rng):
    return mk("n", "11", "GET", 200, "cl:10", rng.below(1 << 20), ["d10"], "-", rng.choice(["fin", "rst"]), "c%d" % rng.choice([0, 1, 9, 17, 40, 80]), (), "-", 0)


def cases(rng, tier):
    thorough = tier == "thorough"
    sizes = SIZES_T if thorough else SIZES_Q
    out = []
    # every framing x every boundary size once (thorough), a sample otherwise
    if thorough:
        for n in sizes:
            for fk in ("cl", "ch", "close"):
                seed = rng.below(1 << 20)
                if fk == "cl":
                    out.append(mk(rng.choice(["n", "m", "d"]), "11", "GET", 200, "cl:%d" % n, seed, ["d%d" % n] if n else [], "-", "keep", "-", segs_for(rng, n), "-", 0))
                elif fk == "ch":
                    ps = chunked_pieces(rng, chunk_sizes(rng, n))
                    out.append(mk(rng.choice(["n", "m", "d"]), "11", "GET", 200, "ch", seed, ps, "-", "keep", "-", segs_for(rng, wire_len(ps)), "-", 0))
                else:
                    out.append(mk(rng.choice(["n", "m", "d"]), "11", "GET", 200, "close", seed, ["d%d" % n] if n else [], "-", "fin", "-", segs_for(rng, n), "-", 0))
        # a split at every offset of the head
        for k in range(1, HEADLEN + 40):
            out.append(mk("n", "11", "GET", 200, "cl:7", 7, ["d7"], "-", "keep", str(k), (), "-", 1))
        # a premature end at every offset of a small chunked message and of a small Content-Length message
        ps = [xs(b"3;a=b\r\n"), "d3", xs(b"\r\n"), xs(b"A\r\n"), "d10", xs(b"\r\n"), xs(b"0\r\nX-T: 1\r\n\r\n")]
        for cut in range(0, wire_len(ps)):
            out.append(mk("n", "11", "GET", 200, "ch", 11, ps, str(cut), "fin", "-", (), "-", 0))
        for cut in range(0, 12):
            out.append(mk("n", "11", "GET", 200, "cl:12", 12, ["d12"], str(cut), "fin", "-", (), "-", 0))
    for _ in range(700 if thorough else 70):
        out.append(valid_case(rng, tier, SIZES_Q + ([131072, 262144 + 1] if thorough else [])))
    for _ in range(150 if thorough else 22):
        out.append(truncated_case(rng, rng.chance(2, 3)))
    for _ in range(80 if thorough else 12):
        out.append(mutated_chunked(rng))
    for _ in range(30 if thorough else 6):
        out.append(extras_case(rng))
    for _ in range(20 if thorough else 5):
        out.append(bodyless_case(rng, False))
    for _ in range(20 if thorough else 5):
        out.append(head_case(rng))
    for _ in range(10 if thorough else 3):
        out.append(headcut_case(rng))
    for _ in range(10 if thorough else 3):
        out.append(crange_case(rng, False))
    if not thorough:
        for k in rng.shuffle(list(range(1, HEADLEN + 40)))[:10]:
            out.append(mk("n", "11", "GET", 200, "cl:7", 7, ["d7"], "-", "keep", str(k), (), "-", 1))
    # re-forwarded requests (first parent answers a complete 502, the scripted origin is the second parent): complete and truncated replies
    for _ in range(40 if thorough else 8):
        l = truncated_case(rng, True) if rng.chance(2, 3) else valid_case(rng, tier, SIZES_Q)
        out.append("r " + l.split(" ", 1)[1])
    rng.shuffle(out)
    # inputs of the known-finding classes last and few (each costs a client-side timeout)
    for _ in range(4 if thorough else 2):
        out.append(bodyless_case(rng, True))
    for _ in range(3 if thorough else 1):
        out.append(crange_case(rng, True))
    return out


# ------------------------------------------------------------------------------------------------ oracle (from the scenario alone)

def fields(obs):
    """-> list of dicts (one per fetch), arrivals"""
    m = re.search(r" arrivals=(\d+)$", obs)
    arrivals = int(m.group(1)) if m else None
    body = obs[:m.start()] if m else obs
    res = []
    for part in body.split(" | "):
        d = {}
        for kv in part.split(" "):
            if "=" in kv:
                k, v = kv.split("=", 1)
                d[k] = v
        res.append(d)
    return res, arrivals


def judge(sc, f, truth):
    """one fetch against the property"""
    whole, B, kind = truth
    for k in ("st", "fr", "len", "fnv", "end", "conn", "next"):
        if k not in f:
            return "malformed observation"
    end = f["end"]
    if end.startswith("badframe"):
        return "client-side framing is not valid HTTP/1.1: " + end
    if kind == "nohead":
        if end == "nohead":
            return None         # the connection was closed without a response: the client can tell
        if f["st"] == str(sc["status"]):
            return "origin never completed its header but the client got status %s" % f["st"]
        return None
    if end == "nohead":
        return "no response head reached the client"
    if f["st"] != str(sc["status"]):
        if f["st"].startswith("5") and not whole and not B:
            return None         # nothing usable came from the origin: an error reply is the visible outcome
        return "status %s relayed as %s" % (sc["status"], f["st"])
    got_len = int(f["len"])
    bodyless = kind == "none"
    if bodyless:
        if f["fr"] != "none" and not (f["fr"].startswith("cl:") and sc["method"] == "HEAD"):
            pass
        if got_len != 0:
            return "a bodyless reply carried %d body octets" % got_len
        if f["next"].startswith("bad"):
            return "octets followed the bodyless reply on the client connection (%s)" % f["next"]
        return None
    # prefix / equality by length+digest of the expected prefix
    if got_len > len(B) or f["fnv"] != H.fnv(B[:got_len]):
        return "client body is not a prefix of the origin's body (altered, inserted or reordered octets)"
    http11 = sc["ver"] == "11"
    if f["fr"] == "close":
        if http11:
            return "an HTTP/1.1 client got a close-delimited body: truncation would be invisible"
        # HTTP/1.0 client: EOF is the only delimiter; a whole origin message must arrive whole
        if whole and end == "eof" and got_len != len(B):
            return "whole origin body (%d) delivered short (%d) to an HTTP/1.0 client" % (len(B), got_len)
        if end == "timeout":
            return "the connection neither completed nor closed"
        return None
    if end == "complete":
        if not whole:
            return "the origin's message was incomplete or malformed (%s) but the client got a complete message" % kind
        if got_len != len(B):
            return "complete client message with %d of %d body octets" % (got_len, len(B))
        if f["next"].startswith("bad"):
            return "the client connection is out of sync after the message (%s)" % f["next"]
        return None
    if end == "timeout":
        return "the client can not tell: message incomplete (%d of %d octets) and the connection stays open" % (got_len, len(B))
    # eof / reset before completion: visible
    if whole:
        return "the origin's whole message (%d octets) was not delivered completely (%d, then %s)" % (len(B), got_len, end)
    return None


def oracle(line, impl):
    sc = H.parse_line(line)
    if sc is None:
        return None if impl == "bad-op" else "bad scenario accepted"
    if impl.startswith("abort") or impl == "bad-op":
        return "no usable observation: " + impl[:100]
    fs, arrivals = fields(impl)
    truth = H.origin_truth(sc)
    if len(fs) != (1 if sc["cache"] in ("n", "r") else 2):
        return "malformed observation"
    for i, f in enumerate(fs):
        why = judge(sc, f, truth)
        if why:
            return ("second fetch: " if i else "") + why
    return None


def compare(line, impl, model):
    if impl == model:
        return True
    sc = H.parse_line(line)
    if sc is None:
        return impl == model
    fi, _ = fields(impl)
    fm, _ = fields(model)
    if len(fi) != len(fm):
        return False
    for a, b in zip(fi, fm):
        nxt = "bad" if a.get("next", "").startswith("bad") else a.get("next")
        same = all(b.get(k) == "?" or (k == "fr" and b.get(k, "").endswith("?") and a.get(k, "").startswith("cl:")) or a.get(k) == b.get(k)
                   for k in ("st", "fr", "len", "fnv", "end", "conn")) and nxt == b.get("next")
        if same:
            continue
        kind = H.origin_truth(sc)[2]
        if kind.startswith("chunked:invalid") and a.get("end") == b.get("end") == "eof" and a.get("st") == b.get("st") and a.get("fr") == b.get("fr") \
                and int(a.get("len", "0")) <= len(H.origin_truth(sc)[1]):
            # what was decoded in the parse() call that hits the malformed octets is dropped with it: how much arrived before depends on the read boundaries
            continue
        if sc["end"] == "rst" or sc["headcut"] is not None:
            # a reset may overtake data that squid has not read yet: any visible shortfall is allowed (the oracle checks prefixes)
            if a.get("end") in ("eof", "reset", "nohead") or a.get("st", "").startswith("5"):
                continue
        return False
    return True


def classify(line, impl, why):
    sc = H.parse_line(line)
    if sc is None or not why:
        return None
    if sc["method"] == "GET" and sc["status"] in (204, 304) and sc["sent"] and "octets followed the bodyless reply" in why:
        return F_BODYLESS
    if sc["hv"] == 2 and sc["ofr"] == "ch" and sc["ver"] == "11" and "the client can not tell" in why:
        return F_CRANGE
    return None


def nontrivial(line, impl, model):
    sc = H.parse_line(line)
    if sc is None:
        return False
    whole, B, kind = H.origin_truth(sc)
    return kind not in ("none", "nohead") and len(sc["wire"]) > 0


def tag(line, impl, model):
    sc = H.parse_line(line)
    if sc is None:
        return "bad-op"
    n = len(sc["wire"])
    size = "0" if n == 0 else "<4k" if n < 4096 else "<64k" if n < 65536 else "<1M" if n < 1 << 20 else ">=1M"
    fs, _ = fields(impl) if "=" in impl else ([{}], None)
    kind = H.origin_truth(sc)[2].split(":")[-1]
    return "%s v%s %s %s %s %s%s -> %s/%s" % (sc["cache"], sc["ver"], sc["method"], "2xx" if sc["status"] < 300 else "%dxx" % (sc["status"] // 100), sc["ofr"].split(":")[0], size,
                                             " cut" if sc["cut"] is not None else "", kind, fs[0].get("end", impl[:20]))


def shrink(line):
    t = line.split(" ")
    if len(t) != 13:
        return

    def with_(i, v):
        u = list(t)
        u[i] = v
        return " ".join(u)
    if t[0] != "n":
        yield with_(0, "n")
    if t[10] != "-":
        yield with_(10, "-")
        s = t[10].split(",")
        if len(s) > 1:
            yield with_(10, ",".join(s[:len(s) // 2]))
    if t[9] != "-" and not t[9].startswith("c"):
        yield with_(9, "-")
    if t[11] != "-":
        yield with_(11, "-")
    if t[12] not in ("0", "2"):
        yield with_(12, "0")
    ps = t[6].split(",") if t[6] != "-" else []
    dn = [int(p[1:]) for p in ps if p[0] == "d"]
    # shrink a plain Content-Length / close body
    if len(ps) == 1 and ps[0][0] == "d" and dn[0] > 1 and t[7] == "-":
        for f in (16, 2):
            m = dn[0] // f
            if m >= 1:
                u = list(t)
                u[6] = "d%d" % m
                if t[4].startswith("cl:"):
                    cl = int(t[4][3:])
                    u[4] = "cl:%d" % max(0, cl - (dn[0] - m))
                yield " ".join(u)
    # drop a whole chunk (size line, data, CRLF) of a chunked body
    if t[4] == "ch" and t[7] == "-" and len(ps) >= 7:
        yield with_(6, ",".join(ps[3:]))
        yield with_(6, ",".join(ps[:3] + ps[6:]))
