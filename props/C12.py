"""C12 Stale responses are not served without revalidation (end to end)."""
import importlib.util, os, re
from vf.util import VERIF
from vf.harness import ModelRunner
from vf import leanp

ID = "C12"
PROP_MODULE = "SquidModel.Properties.C12"
MODEL = "c12"
GEN = ["fresh_defaults"]
RULE = ("scenario = (squid config: built-in rule / shipped refresh_pattern lines / override-expire+override-lastmod / reload-into-ims / "
        "ignore-reload) x origin reply (Date skew incl. absent/future/>24h, Age, s-maxage, max-age, Expires incl. unparsable, Last-Modified, "
        "must-revalidate/proxy-revalidate/no-cache/immutable/public, empty body) x second request (real-time gap 0..3 s, Cache-Control "
        "max-age/max-stale/min-fresh/no-cache/only-if-cached, Pragma) sent through the rebuilt squid to a recording origin; the "
        "second-granular clock value squid used is pinned by keeping each exchange inside one wall-clock second; non-trivial = the reply "
        "carried an explicit lifetime or the request carried max-age/no-cache; distinct = distinct scenario lines")
TRUSTED = ["modelled, not verified: Comm I/O, HTTP header parsing (Cache-Control, dates; tied by C29/C35), the store (lookup by URL, memory "
           "cache), FwdState; `R->pct` (double) is modelled as an exact percentage",
           "the harness knows squid_curtime only because both exchanges of a scenario are kept within one wall-clock second each"]
ASSUMPTIONS = ["forward-proxy GET requests over http to a loopback origin, memory cache only, no Vary, no authentication, no collapsed forwarding",
               "time is not moved: staleness is produced by back-dated Date/Expires/Last-Modified/Age and by real waits of 1-3 s"]
MANIFEST = {
    "engine": "e2e",
    "text": "partial: theorems explicit_lifetime_passed_contacts_origin_partial (s-maxage / max-age / Expires relative to a Date at most 24 h old, "
            "any Age, any later request time, any request without max-stale, any rule without override-expire), "
            "lifetime_passed_after_revalidations_partial (the same along any history of 304 updates, by induction with a timestamps invariant), "
            "date_older_than_24h_counterexample, maxage0_or_nocache_contacts_origin_partial (+ immutable_counterexample), "
            "mustrevalidate_stale_contacts_origin (any configuration, any request incl. max-stale), mustrevalidate_of_first_reply_after_revalidations "
            "(+ mustrevalidate_from_304_counterexample), max_stale_bounds_staleness, served_implies_unexpired, shift_invariant hold for the decision model "
            "(hdrExpirationTime, timestampsSet, the REVALIDATE flags, refreshStaleness, refreshCheck, refreshIsCachable, clientInterpretRequestHeaders, "
            "identifyStoreObject/cacheHit/processExpired, updateOnNotModified); the model is tied to the rebuilt binary by scenario correspondence over "
            "two and three exchanges (hit / conditional revalidation / unconditional miss / 504, the Age header on hits = now - timestamp, the "
            "If-Modified-Since sent upstream = lastModified()) and a direct oracle on what the origin saw; the model cannot exhibit socket I/O, "
            "concurrency between requests, or what happens when a revalidation fails",
    "note": "trusted: Lean kernel, python rig (origin/client stubs), loopback TCP, wall clock; not modelled: socket I/O, header parsing, store "
            "internals, Vary, collapsed forwarding, client conditionals, failed revalidations (5xx / aborted), negative caching (modelled, not exercised)",
    "technique": "Lean 4 proof about the decision model + defaults translator (cf.data.pre) + end-to-end scenario correspondence with the rebuilt squid",
}

_spec = importlib.util.spec_from_file_location("vf_harness_c12", os.path.join(VERIF, "harness", "c12.py"))
c12h = importlib.util.module_from_spec(_spec)
_spec.loader.exec_module(c12h)
Scenario = c12h.Scenario

DAY = 86400


class Checked:
    """The e2e harness plus the flake guard: a scenario whose observation fails the oracle or differs from the model is
    re-run; it is reported only if it fails three times in a row."""

    def __init__(self, stage):
        self.h = c12h.Harness(stage)
        self.crashes = 0
        self.reruns = 0

    def run(self, lines):
        outs = self.h.run(lines)
        model = None
        try:
            if os.path.exists(leanp.driver_path(MODEL)):
                model = ModelRunner(MODEL).run(lines)
        except Exception:
            model = None
        for attempt in range(2):
            bad = [i for i, (l, o) in enumerate(zip(lines, outs)) if o != "bad-op" and (suspicious(l, o) or (model is not None and model[i] != o))]
            if not bad or len(bad) > 200:
                break
            again = self.h.run([lines[i] for i in bad])
            self.reruns += len(bad)
            for i, o in zip(bad, again):
                if not suspicious(lines[i], o) and (model is None or model[i] == o):
                    outs[i] = o      # the earlier observation was a timing accident
        self.crashes = sum(1 for o in outs if o.startswith("abort"))
        return outs

    def close(self):
        self.h.close()


def suspicious(l, o):
    """an oracle failure that is not one of the known findings (those are deterministic; re-running them only costs time)"""
    why = oracle(l, o)
    return bool(why) and classify(l, o, why) is None


def build(stage):
    return Checked(stage)


# ------------------------------------------------------------------------------------------------ generators

def mk(cfg="b", date=None, age=None, sm=None, ma=None, ex=None, lm=None, rf="", dt=0, qma=None, qms=None, qmf=None, qf=""):
    def o(v):
        return "-" if v is None else str(v)
    return " ".join([cfg, o(date), o(age), o(sm), o(ma), o(ex), o(lm), "".join(sorted(set(rf))) or "-", str(dt), o(qma), o(qms), o(qmf),
                     "".join(sorted(set(qf))) or "-"])


LIFETIMES = [0, 1, 2, 3, 5, 10, 59, 60, 61, 62, 100, 300, 3600, 86399, 86400, 86401, 100000, 604800, 31536000, 2147483647]


def pick_cfg(rng):
    k = rng.below(20)
    return "b" if k < 9 else "d" if k < 15 else "o" if k < 17 else "r" if k < 18 else "i" if k < 19 else "b"


def pick_dt(rng, p=10):
    return rng.range(1, 3) if rng.chance(1, p) else 0


def request_part(rng, age_now, remaining):
    """request directives aimed at the entry's age / remaining lifetime at the second request"""
    d = {}
    k = rng.below(12)
    if k == 0:
        d["qma"] = 0
    elif k == 1:
        d["qma"] = max(0, age_now + rng.range(-2, 2))
    elif k == 2:
        d["qms"] = "any"
    elif k == 3:
        d["qms"] = max(0, -remaining + rng.range(-2, 2))
    elif k == 4:
        d["qmf"] = max(0, remaining + rng.range(-2, 2))
    elif k == 5:
        d["qf"] = "n"
    elif k == 6:
        d["qf"] = rng.choice(["o", "g", "c", "gc", "no", "cg"])
    elif k == 7:
        d["qma"] = rng.choice(LIFETIMES)
        if rng.chance(1, 2):
            d["qms"] = rng.choice(["any", 0, 1, 5, 100, 100000])
    return d


def valid_case(rng):
    cfg = pick_cfg(rng)
    dt = pick_dt(rng)
    L = rng.choice(LIFETIMES) if rng.chance(2, 3) else rng.range(0, 90000)
    # age at the second request relative to the lifetime: mostly near the expiry
    near = rng.choice([-3, -2, -1, 0, 1, 2, 3]) if rng.chance(3, 5) else rng.range(-4000, 4000)
    age_now = max(0, L + near)
    if age_now - dt > 2 * DAY or (age_now - dt > DAY and rng.chance(4, 5)):
        age_now = rng.range(0, DAY)       # (a Date older than 24 h is a known finding; the boundary stream aims at it)
    date = max(-5, age_now - dt)
    src = rng.below(7)
    kw = {"cfg": cfg, "dt": dt, "date": date}
    if src == 0:
        kw["ma"] = L
    elif src == 1:
        kw["sm"] = L
    elif src == 2:
        kw["ex"] = L - date
    elif src == 3:      # s-maxage wins over max-age
        kw["sm"], kw["ma"] = L, rng.choice(LIFETIMES)
    elif src == 4:      # max-age wins over Expires
        kw["ma"], kw["ex"] = L, rng.choice([-100, 0, 100, 100000])
    elif src == 5:      # all three
        kw["sm"], kw["ma"], kw["ex"] = L, rng.choice(LIFETIMES), rng.choice([-100, 100000])
    else:               # lifetime measured by Age instead of Date
        kw["date"] = rng.range(0, 3)
        kw["age"] = max(0, age_now - dt)
        kw["ma"] = L
    if rng.chance(1, 2):
        kw["lm"] = rng.choice([0, 1, 100, 100000, 10000000]) + max(0, kw["date"])
    rf = ""
    if rng.chance(1, 4):
        rf += rng.choice(["m", "p", "mp", "u", "i", "n", "mu", "im"])
    if rng.chance(1, 30):
        rf += "z"
    kw["rf"] = rf
    kw.update(request_part(rng, age_now, L - age_now))
    return mk(**kw)


def boundary_case(rng):
    cfg = pick_cfg(rng)
    k = rng.below(9)
    if k == 0:      # the 24-hour Date sanity window
        date = DAY + rng.choice([-2, -1, 0, 0, -3600, 1, 2, 3600])
        L = rng.choice([0, 60, 3600, DAY - 1, DAY, DAY + 1, DAY + 61, 2 * DAY + 100, 3 * DAY])
        kw = {"date": date, rng.choice(["ma", "sm"]): L}
        if rng.chance(1, 3):
            kw = {"date": date, "ex": L - date}
        if rng.chance(1, 3):
            kw["rf"] = "m"
        return mk(cfg=cfg, **kw)
    if k == 1:      # minimum_expiry_time: remaining lifetime 59..61 s with and without a validator / body
        rem = rng.choice([58, 59, 60, 61, 62])
        date = rng.choice([0, 1, 100])
        return mk(cfg=cfg, date=date, ma=date + rem, lm=rng.choice([None, date + 100]), rf=rng.choice(["", "z", "z", "m"]))
    if k == 2:      # Age compensation around the expiry
        L = rng.choice([10, 100, 3600])
        date = rng.choice([0, 1, 5])
        age = max(0, L + rng.choice([-2, -1, 0, 1, 2]))
        return mk(cfg=cfg, date=date, age=age, ma=L, dt=pick_dt(rng, 6))
    if k == 3:      # huge / odd Age
        return mk(cfg=cfg, date=rng.choice([0, 10]), age=rng.choice([0, 1, 2147483647, 2100000000, 1000000000]), ma=rng.choice([100, 2147483647]))
    if k == 4:      # Date in the future or absent
        L = rng.choice([0, 1, 100, 3600])
        if rng.chance(1, 2):
            return mk(cfg=cfg, date=-rng.choice([1, 2, 100, 100000]), ma=L, dt=pick_dt(rng, 4))
        return mk(cfg=cfg, date=None, **{rng.choice(["ma", "sm"]): L}) if rng.chance(1, 2) else mk(cfg=cfg, date=None, ex=rng.choice([-1, 0, 1, 2, 100, "bad"]), dt=pick_dt(rng, 3))
    if k == 5:      # request max-age against the entry age
        a = rng.choice([0, 1, 10, 1000])
        return mk(cfg=cfg, date=a, ma=100000, qma=max(0, a + rng.choice([-1, 0, 1])), dt=pick_dt(rng, 5), rf=rng.choice(["", "", "i"]))
    if k == 6:      # request max-stale against the staleness
        s = rng.choice([0, 1, 10, 1000])
        return mk(cfg=cfg, date=100 + s, ma=100, qms=max(0, s + rng.choice([-1, 0, 1])), rf=rng.choice(["", "", "m", "p"]), dt=pick_dt(rng, 5))
    if k == 7:      # heuristic freshness: Last-Modified factor and the max rule
        d = rng.choice([0, 10, 100, 1000, 259199, 259200, 259201])
        lmd = rng.choice([0, 1, 4, 5, 6, 50, 500, 5000, 5 * d - 1, 5 * d, 5 * d + 1, 5 * d + 5])
        return mk(cfg=cfg, date=min(d, DAY), lm=min(d, DAY) + max(0, lmd), dt=pick_dt(rng, 5))
    # expiry exactly at / around the second request using real seconds
    L = rng.choice([0, 1, 2, 3, 4])
    return mk(cfg=cfg, date=rng.choice([0, 1]), ma=L, lm=rng.choice([None, 1000]), dt=rng.range(0, 3), rf=rng.choice(["", "m"]))


def mutate(rng, line):
    t = line.split(" ")
    for _ in range(rng.range(1, 2)):
        i = rng.below(13)
        if i == 0:
            t[0] = rng.choice(["b", "d", "o", "r", "i"])
        elif i in (1, 6):
            t[i] = rng.choice(["-", "0", "1", "86400", "86401", str(rng.range(0, 200000))])
        elif i == 2:
            t[i] = rng.choice(["-", "0", "1", str(rng.range(0, 5000))])
        elif i in (3, 4, 9, 11):
            t[i] = rng.choice(["-", "0", "1", "60", str(rng.range(0, 5000))])
        elif i == 5:
            t[i] = rng.choice(["-", "bad", "0", "-1", "1", str(rng.range(-5000, 5000))])
        elif i == 7:
            t[i] = "".join(sorted(set(rng.choice(["", "m", "p", "n", "i", "u", "z"]) + rng.choice(["", "m", "i", "n"])))) or "-"
        elif i == 8:
            t[i] = str(rng.choice([0, 0, 0, 1, 2]))
        elif i == 10:
            t[i] = rng.choice(["-", "any", "0", "1", str(rng.range(0, 5000))])
        else:
            t[i] = "".join(sorted(set(rng.choice(["", "n", "o", "g", "c"]) + rng.choice(["", "c", "g"])))) or "-"
    return " ".join(t)


def random_case(rng):
    def num(hi):
        return rng.choice([None, 0, 1, rng.range(0, hi)])
    return mk(cfg=pick_cfg(rng), date=rng.choice([None, 0, rng.range(-100, 200000)]), age=num(5000), sm=num(5000), ma=num(5000),
              ex=rng.choice([None, "bad", rng.range(-5000, 5000)]), lm=rng.choice([None, rng.range(0, 1000000)]),
              rf=rng.choice(["", "m", "p", "n", "i", "u", "z", "mi"]), dt=pick_dt(rng, 15), qma=num(5000), qms=rng.choice([None, None, "any", rng.range(0, 5000)]),
              qmf=num(5000), qf=rng.choice(["", "", "n", "o", "g", "c"]))


def tail(nsm=None, nma=None, nex=None, nrf="", dt2=0, qma=None, qms=None, qmf=None, qf=""):
    def o(v):
        return "-" if v is None else str(v)
    return " ".join([o(nsm), o(nma), o(nex), "".join(sorted(set(nrf))) or "-", str(dt2), o(qma), o(qms), o(qmf), "".join(sorted(set(qf))) or "-"])


def three_case(rng):
    """fill, a second request (mostly one that makes squid revalidate), the 304's new headers, a third request"""
    cfg = pick_cfg(rng)
    k = rng.below(10)
    lm = rng.choice([None, 5000, 100000])
    rf = rng.choice(["", "", "", "m", "p", "u", "i", "n"])
    if k < 6:       # stale at the second request
        L = rng.choice([0, 1, 10, 100, 3600])
        kw = {"date": L + rng.choice([0, 1, 50]), rng.choice(["ma", "sm", "ma"]): L}
        if rng.chance(1, 5):
            kw = {"date": rng.choice([0, 100]), "ex": rng.choice([-100, -1, 0, "bad"])}
        if rng.chance(1, 6):
            kw["age"] = rng.choice([0, 5, 5000])
        first = mk(cfg=cfg, lm=lm, rf=rf, dt=0, **kw)
    elif k < 8:     # fresh, revalidation forced by the client (or not)
        first = mk(cfg=cfg, date=rng.choice([0, 10]), ma=rng.choice([2, 3, 100, 3600]), lm=lm, rf=rf, dt=0,
                   **rng.choice([{"qma": 0}, {"qf": "n"}, {}, {"qf": "o"}, {"qmf": 100000}]))
    else:           # becomes stale by waiting
        first = mk(cfg=cfg, date=0, ma=rng.choice([1, 2]), lm=lm, rf=rf, dt=rng.choice([1, 2, 3]))
    t = {}
    j = rng.below(8)
    if j < 4:
        t[rng.choice(["nma", "nma", "nsm"])] = rng.choice([0, 1, 2, 3, 60, 3600])
    elif j == 4:
        t["nex"] = rng.choice([-1, 0, 1, 2, 100, "bad"])
    elif j == 5:
        t["nma"], t["nex"] = rng.choice([0, 1, 2]), rng.choice([-1, 100])
    if rng.chance(1, 2):
        t["nrf"] = rng.choice(["m", "m", "p", "i", "n", "u", "mu"])
    t["dt2"] = rng.choice([0, 0, 1, 2, 2, 3]) if j < 6 else rng.choice([0, 0, 0, 1])
    r = rng.below(8)
    if r == 0:
        t["qms"] = "any"
    elif r == 1:
        t["qms"] = rng.choice([0, 1, 2, 3])
    elif r == 2:
        t["qma"] = rng.choice([0, 0, 1, 2])
    elif r == 3:
        t["qf"] = rng.choice(["n", "o", "g"])
    elif r == 4:
        t["qmf"] = rng.choice([0, 1, 2])
    return first + " " + tail(**t)


def exhaustive_small(tier):
    """every combination of a small grid around the expiry instant (thorough tier; quick takes a slice)"""
    srcs = ("ma", "sm", "ex")
    reqs = [{}, {"qma": 0}, {"qma": 1}, {"qms": "any"}, {"qms": 1}, {"qf": "n"}, {"qmf": 1}]
    for src in srcs:
        for L in (0, 1, 2):
            for age in (0, 1, 2, 3):
                for rf in ("", "m"):
                    for rq in reqs:
                        kw = {"date": age, "lm": 5000, "rf": rf}
                        kw[src] = (L - age) if src == "ex" else L
                        kw.update(rq)
                        yield mk(**kw)
    # a 304 brings new directives; the third request comes 0..2 s later
    for nma in ((0, 1, 2) if tier == "thorough" else (1,)):
        for nrf in ("", "m"):
            for rf in ("", "m"):
                for dt2 in ((0, 1, 2) if tier == "thorough" else (2,)):
                    for rq in ({}, {"qms": "any"}, {"qms": 1}, {"qma": 0}):
                        yield mk(date=10, ma=5, lm=5000, rf=rf) + " " + tail(nma=nma, nrf=nrf, dt2=dt2, **rq)
    if tier == "thorough":
        for src in srcs:
            for L in (1, 2, 3):
                for dt in (1, 2):
                    for rf in ("", "m"):
                        for rq in ({}, {"qms": "any"}, {"qms": 1}):
                            kw = {"date": 0, "lm": 5000, "rf": rf, "dt": dt}
                            kw[src] = L
                            kw.update(rq)
                            yield mk(**kw)


def cases(rng, tier):
    yield from exhaustive_small(tier)
    n = 6000 if tier == "thorough" else 450
    pool = []
    for i in range(n):
        k = rng.below(24)
        if k < 9:
            l = valid_case(rng)
        elif k < 15:
            l = boundary_case(rng)
        elif k < 19 and pool:
            l = mutate(rng, rng.choice(pool))
        elif k < 20:
            l = random_case(rng)
        else:
            yield three_case(rng)
            continue
        pool.append(l)
        yield l


# ------------------------------------------------------------------------------------------------ the property, judged directly

class Stored:
    """what the property text speaks about for the response squid holds, from the scenario alone
    (times relative to the first exchange): the expiry instant Date + lifetime, its source, must-revalidate, immutable"""

    def __init__(self, src, expiry, must_reval, immutable, date_age):
        self.src, self.expiry, self.must_reval, self.immutable, self.date_age = src, expiry, must_reval, immutable, date_age


def stored_first(sc):
    date_at = -sc.date if sc.date is not None else 0     # value of Date; receipt time stands in for a missing Date
    if sc.sm is not None:
        src, expiry = "s-maxage", date_at + sc.sm
    elif sc.ma is not None:
        src, expiry = "max-age", date_at + sc.ma
    elif sc.ex_bad:
        src, expiry = "expires", 0                        # unparsable Expires = already expired
    elif sc.ex is not None:
        src, expiry = "expires", sc.ex                    # Date + (Expires - Date)
    else:
        src, expiry = None, None
    return Stored(src, expiry, "m" in sc.rf or "p" in sc.rf, "i" in sc.rf, sc.date)


def stored_after_304(sc, at):
    """the stored headers after a 304 received at time `at`: its fields replace the stored ones of the same name"""
    has_cc = sc.nsm is not None or sc.nma is not None or sc.nrf != "-"
    sm, ma, flags = (sc.nsm, sc.nma, sc.nrf) if has_cc else (sc.sm, sc.ma, sc.rf)
    if sm is not None:
        src, expiry = "s-maxage", at + sm
    elif ma is not None:
        src, expiry = "max-age", at + ma
    elif sc.nex_bad:
        src, expiry = "expires", at
    elif sc.nex is not None:
        src, expiry = "expires", at + sc.nex
    elif sc.ex_bad:
        src, expiry = "expires", at
    elif sc.ex is not None:
        src, expiry = "expires", sc.ex
    else:
        src, expiry = None, None
    return Stored(src, expiry, "m" in flags or "p" in flags, "i" in flags, 0)


def judge(cfg, st, rq, now, what):
    """the property for one request answered from the cache without contacting the origin at time `now`"""
    passed = st.expiry is not None and now >= st.expiry
    # "stale responses marked must-revalidate also always contact the origin" (whatever the client or the configuration says)
    if passed and st.must_reval:
        return "%s: stale must-revalidate response served without contacting the origin (%s lifetime ended %d s before the request)" % (what, st.src, now - st.expiry)
    if cfg not in ("b", "d"):
        return None     # configured overrides are the stated exception
    # "requests with Cache-Control max-age=0 or no-cache always contact the origin"
    if rq.qma == 0 or "n" in rq.qf:
        return "%s: request with Cache-Control %s answered from the cache without contacting the origin" % (what, "no-cache" if "n" in rq.qf else "max-age=0")
    # "never serves a cached response without contacting the origin once its explicit freshness lifetime has passed";
    # exception: client max-stale (max-stale=N only excuses staleness up to N)
    if passed:
        if rq.qms_any:
            return None
        if rq.qms is not None and now - st.expiry <= rq.qms:
            return None
        return "%s: response served without contacting the origin %d s after its %s lifetime ended" % (what, now - st.expiry, st.src)
    return None


def parts(impl):
    """observation -> {"B": "hit", "C": ...}"""
    t = impl.split(" ")
    return {t[i][0]: t[i][2:] for i in range(0, len(t) - 1, 2) if len(t[i]) > 2 and t[i][1] == "="}


def facts(l):
    sc = Scenario(l)
    st = stored_first(sc)
    return sc, st.src, st.expiry


def failures(l, impl):
    """[(step, why)] for every step of the scenario that breaks the property"""
    if impl.startswith("abort") or impl in ("no-response", "no-fill", "no-stable-clock", "bad-op") or "=multi" in impl or "=local" in impl:
        return [("?", "no usable observation: " + impl)]
    sc = Scenario(l)
    obs = parts(impl)
    out = []
    st = stored_first(sc)
    if obs.get("B") == "hit":
        why = judge(sc.cfg, st, sc.step1, sc.dt, "second request")
        if why:
            out.append(("B", why))
    if sc.three and obs.get("C") == "hit":
        at = sc.dt
        if obs.get("B") == "reval":
            st = stored_after_304(sc, at)
        # (after an unconditional fetch the origin's answer was `no-store`: if anything is served from the cache now, it can
        #  only be the first response, judged by its own headers)
        why = judge(sc.cfg, st, sc.step2, at + sc.step2.dt, "third request")
        if why:
            out.append(("C", why))
    return out


def oracle(l, impl):
    f = failures(l, impl)
    return f[0][1] if f else None


def classify(l, impl, why):
    try:
        sc = Scenario(l)
        fs = failures(l, impl)
    except ValueError:
        return None
    if not fs:
        return None
    ids = set()
    obs = parts(impl)
    for step, w in fs:
        fid = None
        if step == "B" or (step == "C" and obs.get("B") != "reval"):
            rq = sc.step1 if step == "B" else sc.step2
            if "max-age=0 answered from the cache" in w and "i" in sc.rf and "n" not in rq.qf and "n" not in sc.rf:
                fid = "C12-immutable-ignores-request-max-age"
            elif "lifetime ended" in w and sc.date is not None and sc.date > DAY:
                fid = "C12-date-older-than-24h"
        elif step == "C" and obs.get("B") == "reval":
            has_cc = sc.nsm is not None or sc.nma is not None or sc.nrf != "-"
            flags = sc.nrf if has_cc else sc.rf
            if "max-age=0 answered from the cache" in w and "i" in flags and "n" not in sc.step2.qf:
                fid = "C12-immutable-ignores-request-max-age"
            elif ("stale must-revalidate" in w and has_cc and ("m" in sc.nrf or "p" in sc.nrf)
                  and not ("m" in sc.rf or "p" in sc.rf or "n" in sc.rf or sc.sm is not None)
                  and (sc.step2.qms_any or sc.step2.qms is not None or sc.cfg == "o")):
                fid = "C12-must-revalidate-from-304-ignored"
        ids.add(fid)
    if len(ids) == 1:
        return ids.pop()
    return None     # several different causes in one scenario: report it unclassified unless all are known ones


def compare(l, impl, model):
    return impl == model


def nontrivial(l, impl, model):
    try:
        sc, src, expiry = facts(l)
    except ValueError:
        return False
    return src is not None or sc.qma is not None or "n" in sc.qf or sc.three


def tag(l, impl, model):
    try:
        sc, src, expiry = facts(l)
    except ValueError:
        return "bad"
    if expiry is None:
        st = "heuristic"
    else:
        d = sc.dt - expiry
        st = "fresh" if d < -2 else "stale" if d > 2 else "edge"
    if sc.three:
        p = parts(impl)
        return "%s 3-step %s304=%s -> B=%s C=%s" % (sc.cfg, "+mr " if ("m" in sc.rf or "p" in sc.rf) else "",
                                                     "cc" + ("+mr" if ("m" in sc.nrf or "p" in sc.nrf) else "") if (sc.nsm is not None or sc.nma is not None or sc.nrf != "-") else ("ex" if (sc.nex is not None or sc.nex_bad) else "date"),
                                                     p.get("B", "?").split(" ")[0], p.get("C", "?").split(" ")[0])
    req = "+".join(x for x in ["ma0" if sc.qma == 0 else "ma" if sc.qma is not None else "", "ms" if (sc.qms_any or sc.qms is not None) else "",
                                "mf" if sc.qmf is not None else "", "nc" if "n" in sc.qf else "", "oic" if "o" in sc.qf else ""] if x) or "plain"
    return "%s %s %s%s req=%s -> %s" % (sc.cfg, src or "none", st, "+mr" if ("m" in sc.rf or "p" in sc.rf) else "", req, impl.split(" ")[0])


def shrink(l):
    """scenario-aware: drop one optional field, or shorten one number (a handful of candidates per round: every
    candidate costs a real exchange)"""
    t = l.split(" ")
    if len(t) == 22:
        yield " ".join(t[:13])
        for i in (18, 19, 20, 21, 16, 15, 14, 13):
            if t[i] != "-":
                yield " ".join(t[:i] + ["-"] + t[i + 1:])
        if t[17] != "0" and t[17] != "1":
            yield " ".join(t[:17] + [str(int(t[17]) - 1)] + t[18:])
    if len(t) not in (13, 22):
        return
    for i in (9, 10, 11, 12, 7, 2, 6, 5, 4, 3):
        if t[i] != "-":
            if i in (7, 12) and len(t[i]) > 1:
                for j in range(len(t[i])):
                    yield " ".join(t[:i] + [t[i][:j] + t[i][j + 1:]] + t[i + 1:])
            else:
                yield " ".join(t[:i] + ["-"] + t[i + 1:])
    if t[8] != "0":
        yield " ".join(t[:8] + ["0"] + t[9:])
    if t[0] != "b":
        pass    # the instance is part of the finding's signature; keep it


KNOWN_MUST_MATCH_MODEL = True   # inside a known finding's region the observation must still equal the model's (which reproduces the listed defect); see lib/vf/run.py
