"""C03 No request smuggling: forwarded messages match strict client framing (in-process core + end to end)."""
import os, re, threading
from concurrent.futures import ThreadPoolExecutor
from vf.util import VERIF, hx, unhx
from vf.harness import ProcHarness
from e2e import rig
from harness.c03_ref import ref_stream, adler
from harness import c03_e2e

ID = "C03"
PROP_MODULE = "SquidModel.Properties.C03"
MODEL = "c03"
GEN = ["charsets", "http1_request", "header_registry", "chunked_sets", "uri_parse"]
RULE = ("d <r|s> <stream>: the byte stream is cut into requests in-process by the real RequestParser / HttpRequest::parseHeader / "
        "checkEntityFraming / TeChunkedParser in the order of ConnStateData::parseRequests (relaxed and strict header parser); "
        "e <r|s> <stream> <cuts>: the same kind of stream is sent through the rebuilt squid binary to a recording origin that "
        "delimits what it receives with the strict reference parser. Streams = pipelines of 1..4 grammar-generated requests (Content-Length, "
        "chunked with extensions/trailers, none) in which one message carries a framing anomaly (duplicate / conflicting / list / signed / "
        "padded Content-Length, Transfer-Encoding variants and combinations with Content-Length, obs-fold, whitespace before the colon, "
        "bare CR, bare LF, NUL, name variants, HTTP/1.0, HTTP/0.9) with a body laid out for the *other* reading and a tagged request "
        "hidden in it; boundary lengths; byte mutations of the head; truncations; thorough: all sequences of up to three framing "
        "lines from a 15-line alphabet. non-trivial = the reference parser reports an anomaly (tolerated or rejected) or the stream has "
        "more than one message; distinct = distinct case lines")
TRUSTED = ["python reference delimiter harness/c03_ref.py (RFC 9112 message framing with its enumerated tolerances) = the direct oracle",
           "in-process half: the parseRequests/clientProcessRequest call sequence is transcribed in harness/c03.cc (about 60 lines); the end-to-end half runs the real one",
           "AnyP::Uri::parse enters the model through the C30 model (driver) / as a parameter (theorems)",
           "python rig: recording origin, raw client, loopback TCP"]
ASSUMPTIONS = ["forward-proxy http_port, cache deny all, server_persistent_connections off, default request_header_max_size (64 KB), no ICAP/eCAP, no request_header_access rules",
               "all bytes of the connection are available to the parser (in-process) / written in a few segments (end to end); the body pipe consumer keeps up",
               "CONNECT tunnels and the FTP gateway are outside (a CONNECT ends the modelled stream)"]
MANIFEST = {
    "engine": "in-proc + e2e",
    "text": "partial: Lean model of the client-side message delimiting (request parser, header parser, Content-Length interpreter, checkEntityFraming, "
            "chunked decoder, the parseRequests loop with quitAfterError) and of the framing fields written upstream; theorems in Properties/C03.lean. "
            "Tied to the code by an in-process differential over thousands of anomalous streams and by end-to-end scenarios against the rebuilt binary; "
            "the direct oracle is an independent RFC 9112 delimiter applied to the client stream and, end to end, to the bytes the origin received.",
    "note": "trusted: Lean kernel, python reference parser and rig. Not modelled: socket reads in pieces (covered by C21/C24 segmentation theorems and e2e cuts), CONNECT, FTP, adaptation",
    "technique": "Lean 4 proofs over composed parser models + differential run (ASan/UBSan) + end-to-end scenarios with a strict recording origin",
}
MINIMISE_BUDGET = 120
MAX_REPORT = 6

AUTH = c03_e2e.FAKE_AUTH
SID = c03_e2e.FAKE_SID
UNDER_TEST = ["src/HttpHeader.cc", "src/HttpHeaderTools.cc", "src/StrList.cc", "src/http/ContentLengthInterpreter.cc", "src/HttpRequest.cc",
              "src/http/one/RequestParser.cc", "src/http/one/Parser.cc", "src/http/one/TeChunkedParser.cc", "src/http/one/Tokenizer.cc",
              "src/mime_header.cc", "src/http/Message.cc"]
SQUID_CONF = "cache deny all\nserver_persistent_connections off\nforwarded_for off\nvia off\n"


def build_exe(stage):
    built = getattr(stage, "built", None)
    if built is None:
        built = stage.built = {}
    if "c03" in built:
        return built["c03"]
    # the body of clientSetKeepaliveFlag() from the staged client_side.cc (that file cannot be linked into a unit harness)
    src = stage.read("src/client_side.cc")
    mt = re.search(r"\nvoid\nclientSetKeepaliveFlag\(ClientHttpRequest \* ?http\)\n\{\n.*?\n\}\n", src, re.S)
    if not mt:
        raise RuntimeError("clientSetKeepaliveFlag() not found in client_side.cc")
    with open(os.path.join(stage.work, "c03_keepalive.inc"), "w") as f:
        f.write("// cut from src/client_side.cc by props/C03.py\nstatic" + mt.group(0))
    objs = [stage.compile(os.path.join(VERIF, "harness", "c03.cc"), extra=["-fno-sanitize=vptr", "-I" + stage.work])]
    objs += stage.compile_many(UNDER_TEST, extra=["-fno-sanitize=vptr"])
    exe = stage.link_like("tests/testHttpRequest", objs, os.path.join(stage.work, "c03"),
                          drop=("HttpHeader.o", "HttpHeaderTools.o", "StrList.o", "HttpRequest.o", "mime_header.o", "tests/testHttpRequestMethod.o"))
    built["c03"] = exe
    return exe


class Harness:
    def __init__(self, stage, e2e=True):
        self.proc = ProcHarness([build_exe(stage)], env={"UBSAN_OPTIONS": "print_stacktrace=0:halt_on_error=1:exitcode=86"})
        self.crashes = 0
        self.e2e = e2e
        self.n = 0
        self.lock = threading.Lock()
        self.sq = {}
        self.origin = None
        if e2e:
            self.origin = c03_e2e.RawOrigin()
            for mode, extra in (("r", ""), ("s", "relaxed_header_parser off\n")):
                self.sq[mode] = self._start(stage, SQUID_CONF + extra)

    @staticmethod
    def _start(stage, conf):
        last = None
        for _ in range(4):
            try:
                return rig.Squid(stage, conf=conf).start(wait=40)
            except RuntimeError as e:   # port race / slow start under load
                last = e
        raise last

    def one(self, line):
        p = line.split(" ")
        try:
            mode, template = p[1], unhx(p[2])
            cuts = [int(x) for x in p[3].split(",")] if len(p) > 3 and p[3] != "-" else []
            sq = self.sq[mode]
        except (ValueError, IndexError, KeyError):
            return "bad-op"
        obs = None
        for attempt in range(3):
            with self.lock:
                self.n += 1
                sid = "%08d" % self.n
            obs = c03_e2e.run_scenario(sq.port, self.origin, sid, template, cuts, "zz" if b"/zz " in template else None)
            if not sq.alive():
                return "abort:squid-died"
            if oracle(line, obs) is None:
                break
        return obs

    def run(self, lines):
        out = [None] * len(lines)
        d_idx = [i for i, l in enumerate(lines) if not l.startswith("e ")]
        e_idx = [i for i, l in enumerate(lines) if l.startswith("e ")]
        if d_idx:
            res = self.proc.run([lines[i] for i in d_idx])
            self.crashes = self.proc.crashes
            for i, r in zip(d_idx, res):
                out[i] = r
        if e_idx:
            if not self.e2e:
                for i in e_idx:
                    out[i] = "bad-op"
            else:
                with ThreadPoolExecutor(max_workers=6) as ex:
                    res = list(ex.map(rig.guarded(self.one, list(self.sq.values())), [lines[i] for i in e_idx]))
                for i, r in zip(e_idx, res):
                    out[i] = r
        return out

    def close(self):
        for s in self.sq.values():
            s.stop()
        if self.origin:
            self.origin.close()


def build(stage):
    return Harness(stage)


# ---------------------------------------------------------------------------------------------- generators
def target(tag):
    return b"http://" + AUTH + b"/c03/" + SID + b"/" + tag


def hidden(tag):
    """a complete request placed inside a body: if any parser ever takes body bytes for a message, its tag shows up"""
    return b"GET " + target(tag) + b" HTTP/1.1\r\nHost: " + AUTH + b"\r\n\r\n"


NOISE = [b"Accept: */*", b"User-Agent: c03", b"X-Pad: aaaaaaaaaaaaaaaa", b"Cookie: a=1; b=2", b"X-Content-Length: 9", b"Accept-Encoding: gzip, chunked",
         b"X-Transfer-Encoding: chunked", b"Content-Type: text/plain"]
EXT = [b"", b"", b";a", b";a=b", b" ;a=b", b"; a = b", b';q="x y"', b';q="a\\"b";r', b";a=b;c=d"]


def chunked_body(rng, body, trailers=None):
    out = b""
    pos = 0
    while pos < len(body):
        n = rng.range(1, max(1, min(len(body) - pos, 40)))
        size = ("%x" % n) if rng.chance(1, 2) else ("%X" % n)
        if rng.chance(1, 6):
            size = "0" * rng.range(1, 3) + size
        out += size.encode() + rng.choice(EXT) + b"\r\n" + body[pos:pos + n] + b"\r\n"
        pos += n
    out += rng.choice([b"0", b"0", b"00", b"0;last"]) + b"\r\n"
    if trailers is None:
        trailers = rng.choice([[], [], [b"X-Trailer: t"], [b"X-A: 1", b"X-B: 2"]])
    for t in trailers:
        out += t + b"\r\n"
    return out + b"\r\n"


def valid_message(rng, tag, kind=None):
    """-> bytes of one strictly valid request"""
    kind = kind or rng.choice(["none", "none", "cl", "cl", "chunked", "chunked", "cl0"])
    method = rng.choice([b"GET", b"GET", b"DELETE", b"OPTIONS"]) if kind == "none" else rng.choice([b"POST", b"PUT", b"POST", b"PATCH"])
    lines = [b"Host: " + AUTH]
    for _ in range(rng.below(3)):
        lines.append(rng.choice(NOISE))
    body = b""
    if kind in ("cl", "cl0"):
        payload = b"" if kind == "cl0" else rng.bytes(rng.range(1, 60), b"abcdefghij0123456789\r\n :")
        if kind == "cl" and rng.chance(1, 3):
            payload = hidden(b"b" + tag) + payload
        lines.insert(rng.below(len(lines) + 1), b"Content-Length: %d" % len(payload))
        body = payload
    elif kind == "chunked":
        payload = rng.bytes(rng.range(0, 80), b"abcdefghij0123456789\r\n :")
        if rng.chance(1, 3):
            payload = hidden(b"b" + tag) + payload
        lines.insert(rng.below(len(lines) + 1), b"Transfer-Encoding: chunked")
        body = chunked_body(rng, payload)
    return method + b" " + target(tag) + b" HTTP/1.1\r\n" + b"\r\n".join(lines) + b"\r\n\r\n" + body


CLN = b"Content-Length"
TEN = b"Transfer-Encoding"
# framing lines for the anomaly in the middle message; %d = length of the body under the Content-Length reading
CL_VALUES = [b"%d", b" %d", b"%d ", b"\t%d", b"+%d", b"-%d", b"0%d", b"%d.0", b"%d,%d", b"%d, %d", b"%d ,%d", b",%d", b"%d,", b"%d,,%d", b"0x%d", b"%d;",
             b"\x0b%d", b"%d\x0b", b"\x0c%d", b"%d\x0c", b"%d\r", b"\"%d\"", b"%d %d", b"%de0", b"", b" ", b"%d\x00", b"\x00%d", b"1%d", b"%d,9", b"9,%d",
             b"%d,\x0b,9", b"%d, ,%d", b"9223372036854775807", b"9223372036854775808", b"18446744073709551616", b"4294967296", b"00000000000000000000%d"]
TE_VALUES = [b"chunked", b"Chunked", b"CHUNKED", b" chunked", b"chunked ", b"\tchunked", b"chunked\t", b"chunked,", b",chunked", b"chunked, ", b", chunked",
             b"gzip, chunked", b"chunked, gzip", b"identity", b"identity, chunked", b"chunked, identity", b"chunked, chunked", b"x-chunked", b"chunked;q=1",
             b"chunke", b"chunkedx", b"\x0bchunked", b"chunked\x0b", b"chunked\x0c", b"\x0cchunked", b"chunked\r", b"\"chunked\"", b"", b" ", b"chunked\x00",
             b"gzip", b"deflate,chunked", b"chunked ,", b"ch\x00unked"]
NAME_VARIANTS = [b"%s", b"%s", b"%s ", b"%s\t", b" %s", b"\t%s", b"%s\x0b", b"%s\x0c", b"%s\r", b"%s\x00", b"\x00%s", b"X%s", b"%sX", b"%s:", b"\x0b%s", b"(%s)"]
EOLS = [b"\r\n", b"\r\n", b"\r\n", b"\n", b"\r\r\n", b"\r", b"\n\r", b"\r\n ", b"\r\n\t", b"\n "]


def name_variant(rng, name, mess):
    v = rng.choice(NAME_VARIANTS) if mess and rng.chance(1, 3) else b"%s"
    n = v % name
    k = rng.below(8)
    if k == 0:
        n = n.lower()
    elif k == 1:
        n = n.upper()
    elif k == 2:
        n = n.replace(b"-", b"_")
    return n


def anomaly_message(rng, tag):
    """a request whose framing fields are ambiguous or malformed; the body region holds a chunked body whose data starts
    with a hidden request, followed by another hidden request: whichever reading a parser takes, a misreading shows"""
    inner = hidden(b"b" + tag)
    chunk = chunked_body(rng, inner + b"xyz", trailers=[])
    extra = hidden(b"c" + tag) if rng.chance(1, 2) else b""
    region = chunk + extra
    cl_true = rng.choice([len(chunk), len(chunk), len(region), 0, 3, len(chunk) - 1, len(chunk) + 1, len(inner)])
    cl_true = max(0, cl_true)
    plan = rng.below(12)
    fl = []      # (name, sep, value, eol)

    def clv(alt=None):
        v = rng.choice(CL_VALUES) if rng.chance(2, 3) else b"%d"
        cnt = v.count(b"%d")
        if cnt == 0:
            return v
        nums = [cl_true] * cnt
        if alt is not None and cnt > 1 and rng.chance(1, 2):
            nums[-1] = alt
        return v % tuple(nums)

    def tev():
        return rng.choice(TE_VALUES) if rng.chance(2, 3) else b"chunked"
    mess = rng.chance(1, 2)
    sep = lambda: rng.choice([b": ", b": ", b":", b":  ", b":\t", b" : ", b"\t:", b":\r\n ", b":\r\n\t", b": \r\n ", b":\n "]) if rng.chance(1, 3) else b": "
    if plan == 0:       # CL only, odd value
        fl = [(name_variant(rng, CLN, mess), sep(), clv(cl_true + 1))]
    elif plan == 1:     # CL twice
        fl = [(name_variant(rng, CLN, mess), sep(), clv()), (name_variant(rng, CLN, mess), sep(), rng.choice([b"%d" % cl_true, b"%d" % (cl_true + 1), b"0", clv()]))]
    elif plan == 2:     # TE only, odd value
        fl = [(name_variant(rng, TEN, mess), sep(), tev())]
    elif plan in (3, 4):     # CL then TE
        fl = [(name_variant(rng, CLN, mess), sep(), clv()), (name_variant(rng, TEN, mess), sep(), tev())]
    elif plan in (5, 6):     # TE then CL
        fl = [(name_variant(rng, TEN, mess), sep(), tev()), (name_variant(rng, CLN, mess), sep(), clv())]
    elif plan == 7:     # TE twice
        fl = [(name_variant(rng, TEN, mess), sep(), tev()), (name_variant(rng, TEN, mess), sep(), tev())]
    elif plan == 8:     # framing field hidden in a folded value / after a bare CR
        hid = rng.choice([CLN + b": %d" % cl_true, TEN + b": chunked"])
        glue = rng.choice([b"\r\n ", b"\r\n\t", b"\r", b"\n ", b"\r\r\n ", b"\x00", b"\x0b", b" \r\n "])
        fl = [(b"X-Fold", b": ", b"a" + glue + hid)]
        if rng.chance(1, 2):
            fl.append((CLN, b": ", b"%d" % cl_true))
    elif plan == 9:     # CL + TE + CL
        fl = [(CLN, sep(), clv()), (name_variant(rng, TEN, mess), sep(), tev()), (CLN, sep(), clv(cl_true + 2))]
    elif plan == 10:    # whitespace-preceded lines after the request line, then framing
        fl = [(b" " + rng.choice([CLN + b": %d" % cl_true, TEN + b": chunked", b"junk"]), b"", b""), (name_variant(rng, rng.choice([CLN, TEN]), mess), sep(), rng.choice([b"%d" % cl_true, b"chunked"]))]
    else:               # no framing field at all but a body region
        fl = []
    version = rng.choice([b"HTTP/1.1"] * 6 + [b"HTTP/1.0", b"HTTP/1.0", b"HTTP/1.2", b"HTTP/2.0", b"HTTP/0.9", b"http/1.1", b"HTTP/1.10", b"HTTP/01.1"])
    method = rng.choice([b"POST", b"POST", b"PUT", b"GET", b"get", b"DELETE", b"FOO", b"HEAD"])
    sp1, sp2 = (rng.choice([b" ", b"  ", b"\t", b" \t", b"\x0b", b"\r"]) if rng.chance(1, 12) else b" " for _ in range(2))
    first = method + sp1 + target(tag) + (sp2 + version if not (version == b"HTTP/0.9" and rng.chance(1, 2)) else b"")
    eol = lambda: rng.choice(EOLS) if rng.chance(1, 6) else b"\r\n"
    head = first + eol()
    lines = [b"Host: " + AUTH + eol()]
    for nm, sp, val in fl:
        lines.append(nm + sp + val + eol())
    for _ in range(rng.below(2)):
        lines.insert(rng.below(len(lines) + 1), rng.choice(NOISE) + eol())
    head += b"".join(lines) + rng.choice([b"\r\n"] * 8 + [b"\n", b"\r\r\n"])
    return head + region


def mutate(rng, data, region_end):
    """byte-level mutation inside data[:region_end]"""
    data = bytearray(data)
    alphabet = b"\r\n \t\x00\x0b\x0c:,;0159-+chunkedCL"
    for _ in range(rng.range(1, 3)):
        if not region_end:
            break
        k = rng.below(6)
        p = rng.below(region_end)
        # the request-target carries the scenario id and the tag the end-to-end oracle matches on: leave it alone
        eol = bytes(data).find(b"\n")
        t0, t1 = bytes(data).find(b" "), bytes(data).rfind(b" ", 0, eol if eol >= 0 else len(data))
        if 0 <= t0 <= p <= t1:
            continue
        if k == 0:
            data[p] = rng.choice(alphabet)
        elif k == 1:
            data.insert(p, rng.choice(alphabet))
            region_end += 1
        elif k == 2:
            del data[p]
            region_end -= 1
        elif k == 3:
            data[p] ^= 1 << rng.below(8)
        elif k == 4:   # duplicate a line
            s = bytes(data)
            a = s.rfind(b"\n", 0, p) + 1
            b = s.find(b"\n", p)
            if b >= 0 and b < region_end:
                data[a:a] = s[a:b + 1]
                region_end += b + 1 - a
        else:          # swap two adjacent lines
            s = bytes(data)
            a = s.rfind(b"\n", 0, p) + 1
            b = s.find(b"\n", p)
            c = s.find(b"\n", b + 1) if b >= 0 else -1
            if c >= 0 and c < region_end:
                data[a:c + 1] = s[b + 1:c + 1] + s[a:b + 1]
    return bytes(data)


def sentinel():
    return b"GET " + target(b"zz") + b" HTTP/1.1\r\nHost: " + AUTH + b"\r\n\r\n"


def stream(rng):
    """a pipeline: valid prefix, one anomalous or mutated or valid message, valid suffix"""
    k = rng.below(10)
    pre = [valid_message(rng, b"p%d" % i) for i in range(rng.below(3))]
    post = [valid_message(rng, b"q%d" % i) for i in range(rng.below(2))]
    if k < 5:
        mid = anomaly_message(rng, b"m")
    elif k < 8:
        m = valid_message(rng, b"m")
        head_end = m.find(b"\r\n\r\n") + 4
        mid = mutate(rng, m, head_end if rng.chance(3, 4) else len(m))
    else:
        mid = valid_message(rng, b"m")
    s = b"".join(pre) + mid + b"".join(post)
    if k == 9 and len(s) > 2:
        s = s[:rng.range(1, len(s) - 1)]     # truncation
    return s


ALPHA = [b"Content-Length: 3", b"Content-Length: 4", b"Content-Length: 3,3", b"Content-Length: 3, 4", b"Content-Length: +3", b"Content-Length : 3",
         b"Transfer-Encoding: chunked", b"Transfer-Encoding: gzip", b"Transfer-Encoding: chunked, chunked", b"Transfer-Encoding : chunked",
         b"Transfer-Encoding:\r\n chunked", b"Content-Length:\r\n 3", b" Content-Length: 4", b"X: y\rContent-Length: 4", b"Transfer-Encoding: \x0bchunked"]


def small_scope(depth):
    body = b"3\r\nabc\r\n0\r\n\r\n" + hidden(b"bm")
    import itertools
    for n in range(0, depth + 1):
        for combo in itertools.product(range(len(ALPHA)), repeat=n):
            for ver in (b"HTTP/1.1",) if n == 3 else (b"HTTP/1.1", b"HTTP/1.0"):
                head = b"POST " + target(b"m") + b" " + ver + b"\r\nHost: " + AUTH + b"\r\n" + b"".join(ALPHA[i] + b"\r\n" for i in combo) + b"\r\n"
                yield head + body


def cases(rng, tier):
    thorough = tier == "thorough"
    # end-to-end scenarios first (their number is small; a failure there must not be crowded out)
    ne = 320 if thorough else 40
    for i in range(ne):
        s = stream(rng)
        if len(s) > 6000:
            continue
        s += sentinel()
        n = len(s)
        cuts = []
        if rng.chance(1, 3):
            cuts = sorted({rng.range(1, n - 1) for _ in range(rng.range(1, 4))})
        yield "e %s %s %s" % (rng.choice("rs"), hx(s), ",".join(map(str, cuts)) or "-")
    # exhaustive small scopes
    for s in small_scope(3 if thorough else 2):
        for mode in "rs":
            yield "d %s %s" % (mode, hx(s))
    nd = 40000 if thorough else 2500
    for i in range(nd):
        s = stream(rng)
        if rng.chance(1, 2):
            yield "d r %s" % hx(s)
            yield "d s %s" % hx(s)
        else:
            yield "d %s %s" % (rng.choice("rs"), hx(s))
    # every truncation of a few streams
    for i in range(12 if thorough else 3):
        s = stream(rng)[:400]
        mode = rng.choice("rs")
        for cut in range(1, len(s)):
            yield "d %s %s" % (mode, hx(s[:cut]))


# ---------------------------------------------------------------------------------------------- oracle
def parse_events(impl):
    evs = []
    for tok in impl.split(" "):
        f = tok.split(":")
        evs.append(f)
    return evs


def fin_str(fin):
    return fin[0] + ("(" + fin[1] + ")" if len(fin) > 1 else "")


def judge_d(data, impl):
    msgs, fin = ref_stream(data)
    evs = parse_events(impl)
    for k, ev in enumerate(evs):
        kind = ev[0]
        prev_close = k > 0 and k - 1 < len(msgs) and msgs[k - 1].close_after
        if kind == "M":
            start, head_end, end = int(ev[1]), int(ev[2]), int(ev[3])
            fields = dict(x.split("=", 1) for x in ev[5:] if "=" in x)
            if prev_close:
                return "message %d at %d accepted after a message with %s: the strict parser closes the connection there" % (k, start, "+".join(t for t in msgs[k - 1].tol if t.startswith("te-")))
            if k >= len(msgs):
                return "message %d [%d,%d,%d) accepted but the strict parser has %s there" % (k, start, head_end, end, fin_str(fin))
            r = msgs[k]
            if (head_end, end) != (r.head_end, r.end):
                return "message %d boundaries differ: squid head_end=%d end=%d, strict parser head_end=%d end=%d (%s)" % (k, head_end, end, r.head_end, r.end, r.framing)
            if int(fields.get("ncl", "0")) > 1:
                return "message %d carries %s Content-Length entries after parsing" % (k, fields["ncl"])
            want = "ch" if r.framing == "chunked" else ("cl" if r.framing == "cl" and r.length > 0 else "none")
            got = "ch" if ev[4].startswith("ch") else ev[4]
            if want != got:
                return "message %d framing differs: squid %s, strict parser %s" % (k, ev[4], r.framing)
            if int(fields.get("ck", "1")) != adler(r.body):
                return "message %d body differs from the strict parser's" % k
        elif kind in ("more", "body"):
            if k < len(msgs) and not prev_close and not (kind == "more" and "leading-empty-line" in msgs[k].tol):
                # (a strict-mode Squid never gets past an empty line before a request line: it forwards nothing)
                r = msgs[k]
                return "squid waits for more %s bytes of message %d where the strict parser sees a complete message ending at %d" % ("body" if kind == "body" else "head", k, r.end)
            if kind == "body" and k >= len(msgs) and fin[0] == "reject" and not prev_close:
                return "head of message %d accepted (body pending) but the strict parser rejects it: %s" % (k, fin[1])
        elif kind in ("rej", "end", "connect", "closing"):
            pass
        elif kind.startswith("abort") or kind.startswith("throw") or kind == "bad-op":
            return "no usable observation: " + impl[:80]
        else:
            return "unparsable observation: " + impl[:80]
    return None


def parse_e(obs):
    d = {}
    for tok in obs.split(" "):
        if "=" in tok:
            k, v = tok.split("=", 1)
            d[k] = v
    return d


def judge_e(data, obs):
    if obs.startswith("abort") or obs == "bad-op" or not obs.startswith("F="):
        return "no usable observation: " + obs[:80]
    msgs, fin = ref_stream(data)
    d = parse_e(obs)
    fw = [] if d.get("F", "-") == "-" else d["F"].split(",")
    for j in (d.get("J", "-").split(",") if d.get("J", "-") != "-" else []):
        if not j.startswith("incomplete-at-eof"):
            return "the origin received bytes the strict parser rejects: " + j
    for k, f in enumerate(fw):
        mh, tag, blen, ck = f.split("!")[0].split(":")
        note = f.split("!", 1)[1] if "!" in f else ""
        if note.startswith("framing-fields"):
            return "forwarded request %d (%s) carries %s" % (k, tag, note)
        if note and note != "ctl-in-value":     # RFC 9110 5.5: CTLs other than CR, LF, NUL in a field value may be retained
            return "forwarded request %d (%s) is not strictly framed: %s" % (k, tag, note)
        if k > 0 and k - 1 < len(msgs) and msgs[k - 1].close_after:
            return "request %d (%s) forwarded after a message with %s: the strict parser closes the connection there" % (k, tag, "+".join(t for t in msgs[k - 1].tol if t.startswith("te-")))
        if k >= len(msgs):
            return "request %d (%s) forwarded but the strict parser has %s there" % (k, tag, fin_str(fin))
        r = msgs[k]
        mt = re.search(rb"/c03/[A-Za-z0-9]{8}/([A-Za-z0-9]+)", r.target)
        rtag = mt.group(1).decode() if mt else "?"
        if tag != rtag or unhx(mh).upper() != r.method.upper():
            return "forwarded request %d is %s %s, the strict parser's message %d is %s %s" % (k, unhx(mh).decode("latin-1"), tag, k, r.method.decode("latin-1"), rtag)
        if int(blen) != len(r.body) or int(ck) != adler(r.body):
            return "forwarded request %d (%s) has a body of %s bytes, the strict parser's message has %d" % (k, tag, blen, len(r.body))
    return None


def oracle(line, impl):
    p = line.split(" ")
    if impl is None:
        return "no observation"
    if p[0] == "d":
        if impl.startswith("abort"):
            return "no usable observation: " + impl[:100]
        return judge_d(unhx(p[2]), impl)
    if p[0] == "e":
        return judge_e(unhx(p[2]), impl)
    return None


def compare(line, impl, model):
    if line.startswith("e "):
        f = lambda o: re.sub(r"![^,\s]*", "", parse_e(o).get("F", "?"))
        return f(impl) == f(model)
    return impl == model


def _ref_class(line):
    msgs, fin = ref_stream(unhx(line.split(" ")[2]))
    tols = sorted({t for m in msgs for t in m.tol})
    return msgs, fin, tols


def nontrivial(line, impl, model):
    msgs, fin, tols = _ref_class(line)
    return bool(tols) or fin[0] == "reject" or len(msgs) > 1


def tag(line, impl, model):
    p = line.split(" ")
    msgs, fin, tols = _ref_class(line)
    ref = "strict" if not tols else "tol:" + tols[0]
    if p[0] == "d":
        evs = (impl or "").split(" ")
        sq = "%dM+%s" % (sum(1 for e in evs if e.startswith("M:")), evs[-1].split(":")[0] + (":" + evs[-1].split(":")[-1] if evs[-1].startswith("rej") else ""))
    else:
        d = parse_e(impl or "")
        sq = "%dF %s" % (0 if d.get("F", "-") == "-" else len(d["F"].split(",")), d.get("E", "?"))
    return "%s %s ref=%dmsg/%s/%s squid=%s" % (p[0], p[1], len(msgs), ref, fin_str(fin)[:28], sq)


def classify(line, impl, why):
    return None


def shrink(line):
    p = line.split(" ")
    if p[0] != "d":
        return
    data = unhx(p[2])
    # drop whole lines, then shorten runs, then single bytes from the end
    parts = data.split(b"\n")
    for i in range(len(parts)):
        cand = b"\n".join(parts[:i] + parts[i + 1:])
        if cand:
            yield "d %s %s" % (p[1], hx(cand))
    n = len(data)
    step = n // 2
    while step >= 1:
        for off in range(0, n, step):
            cand = data[:off] + data[off + step:]
            if cand:
                yield "d %s %s" % (p[1], hx(cand))
        step //= 2
